"""C03 — executing a program touches only the elements it is entitled to (structural part).

  D1  emulator: subscripts on operand pointers are canonical/documented; source
      pointers are const and never stored through
  D1b C generator: the subscripts inside the format literals of the load/store
      rules, the element loop header and the row pointer computation
  D2  JIT access width == entitled width, in the move helpers (layer 1) and in the
      load/store rules (layer 2); widths from objdump's `<SIZE> PTR` annotation
  D2b the displacement of a memory operand is emitted as one (sign-extended) byte only where
      it is known to lie in [-128, 127]
  D7  the three-region split compares the alignment prologue count with ex->n on every path
  D6  fixed registers a rule parks (push / executor slot) come back from the same place into the same register
  D5  array pointers in OrcExecutor.arrays[] are loaded, stored and advanced at pointer width
  D3  who may store: array stores only in store rules, through the destination pointer
  D4  executor scratch slots written by generated code form a closed set
Region counters, strides, rep-movs counts: NOT decided.
"""
import os
import re

from facts import AnalysisBroken, access_path, strip_casts, unparse, init_rows
from flow import single_defs
from emu import EmuFunc
from rules.c02 import forms_for
from rules_common import where
from x86guard import Backend, asm_forms
import x86ref

GEN_FORMS = {
    "c_rule_loadX": [r"^i$", r"^offset\+i$"],
    "c_rule_storeX": [r"^i$", r"^offset\+i$"],
    "c_rule_loadoffX": [r"^i\+%s$", r"^offset\+i\+%s$"],
    "c_rule_loadupdb": [r"^i>>1$", r"^\(offset\+i\)>>1$"],
    "c_rule_loadupib": [r"^i>>1$", r"^\(offset\+i\)>>1$", r"^\(i>>1\)\+1$", r"^\(\(offset\+i\)>>1\)\+1$"],
    "c_rule_ldresnearX": [r"^\(%s\+i\*%s\)>>\d+$", r"^\(%s\+\(offset\+i\)\*%s\)>>\d+$"],
    "c_rule_ldreslinb": [r"^tmp>>\d+$", r"^\(tmp>>\d+\)\+1$"],
    "c_rule_ldreslinl": [r"^tmp>>\d+$", r"^\(tmp>>\d+\)\+1$"],
}

# executor slots generated x86 code may write (frozen, with the reason)
SLOT_TABLE = [
    (r"^counter[123]$", "region counters"),
    (r"^accumulators\[", "accumulator results"),
    (r"^params\[ORC_VAR_A2\]$", "row index of 2-D loops"),
    (r"^params\[ORC_VAR_A4\]$", "MXCSR work slot"),
    (r"^params\[ORC_VAR_C1\]$", "saved caller MXCSR"),
    (r"^arrays\[(k|i)\]$", "pointer advance of the program's own array variables (loop over array variables)"),
    (r"^arrays\[ORC_VAR_T1\]$", "constant / 64-bit staging area (temporaries have no array)"),
    (r"^arrays\[ORC_VAR_T2\]$", "staging area"), (r"^arrays\[ORC_VAR_T3\]$", "staging area"), (r"^arrays\[ORC_VAR_T4\]$", "staging area"),
]


def brackets(fmt):
    """subscript expressions of ptr%d[...] occurrences in a format literal."""
    out = []
    for m in re.finditer(r"ptr%d\[", fmt):
        i = m.end()
        d = 1
        j = i
        while j < len(fmt) and d:
            if fmt[j] == "[":
                d += 1
            elif fmt[j] == "]":
                d -= 1
            j += 1
        expr = fmt[i:j - 1].replace(" ", "")
        rest = fmt[j:].lstrip()
        out.append((expr, rest.startswith("=") and not rest.startswith("==")))
    return out


def run(ctx):
    db = ctx.db()
    rep = ctx.report
    rep.explanation = (
        "Structural bounds on what executing a program can touch: (emulator) every subscript on an operand pointer is i, offset+i or "
        "a documented form, source pointers are const-qualified and never stored through; (C generator) the same discipline on the "
        "subscripts inside the format literals of the load/store rules, the element loop `for (i = 0; i < n; i++)`, row pointers "
        "`ORC_PTR_OFFSET(array, stride * j)` and const source declarations; (JIT) in the move helpers and in every x86 load/store "
        "rule each `case N` of the size switch touches exactly the entitled number of bytes, the width of each memory instruction "
        "being read from objdump's Intel-syntax operand-size annotation of the table row's own mnemonic (loadupdb N/2, loadupib "
        "N/2+1 and exactly 1 for a single element); array stores occur only in store rules through the destination pointer; the "
        "executor slots written by generated code are a frozen closed set. Region counters, strides and row advance are NOT decided.")
    rep.assumptions += ["binutils objdump operand-size annotation as width reference", "slot table SLOT_TABLE in rules/c03.py (confirmed by reading)"]

    # ---- D1 emulator -----------------------------------------------------------
    tu = db.tu("orcemulateopcodes")
    n_emu = 0
    for f in tu.main_functions():
        if not f.name.startswith("emulate_"):
            continue
        e = EmuFunc(f)
        n_emu += 1
        rep.saw(f)
        w = where(f)
        allowed = forms_for(e.op)
        bad = [(pn, ix) for _, pn, ix, st in e.subs if ix not in ("i", "offset+i") and not any(re.match(p, ix) for p in allowed)]
        badst = [(pn, ix) for _, pn, ix, st in e.subs if st and (ix not in ("i", "offset+i") or e.ptrs[pn]["role"] != "dest")]
        nonconst = [pn for pn, d in e.ptrs.items() if d["role"] == "src" and not d["const"]]
        castaway = [pn for pn, d in e.ptrs.items() if d["role"] == "src" and d["const"] and False]
        rep.check(not bad and not badst and not nonconst and not e.other_stores, "D1-EMU-INDEX", w, "accesses",
                  "%d subscripts canonical/documented; %d source pointers const; stores only to destination elements i / offset+i" %
                  (len(e.subs), sum(1 for d in e.ptrs.values() if d["role"] == "src")),
                  "emulator may touch memory it is not entitled to: bad index %s, bad store %s, non-const source pointers %s, other stores %s" %
                  (bad[:2], badst[:2], nonconst, [s for _, s in e.other_stores][:2]))
    if n_emu < 150:
        raise AnalysisBroken("only %d emulate functions" % n_emu)

    # ---- D1b generator ------------------------------------------------------------
    ctu = db.tu("orcprogram-c")
    nlit = 0
    store_funcs = set()
    for f in ctu.main_functions():
        for c in f.calls("orc_compiler_append_code"):
            a = c.args()
            if len(a) < 2:
                continue
            lit = strip_casts(a[1])
            if lit.k != "StringLiteral":
                continue
            fmt = lit.get("str", "")
            for expr, is_store in brackets(fmt):
                nlit += 1
                allowed = GEN_FORMS.get(f.name)
                # a cast to a 64-bit integer type widens a factor and leaves the index form what it is (the second frozen-text
                # false alarm of this rule on a repaired tree, see DESIGN 8.2): compare the form without such casts
                shape = re.sub(r"\((?:orc_int64|orc_uint64|orc_intptr|long|longlong|ptrdiff_t|size_t|intptr_t)\)", "", expr)
                ok = allowed is not None and any(re.match(p, shape) for p in allowed)
                if is_store:
                    store_funcs.add(f.name)
                    ok = ok and f.name == "c_rule_storeX" and expr in ("i", "offset+i")
                rep.check(ok, "D1b-GEN-TEMPLATE", where(f), "ptr[%s]%s" % (expr, "=" if is_store else ""),
                          "generated subscript `%s` is a canonical/documented form for this rule" % expr,
                          "C generator emits `ptr[%s]%s` in %s: not a canonical or documented index form%s" %
                          (expr, " = ..." if is_store else "", f.name, " (stores belong to c_rule_storeX only)" if is_store else ""), line=c.line)
    if nlit < 20:
        raise AnalysisBroken("only %d ptr%%d[...] templates found in orcprogram-c.c" % nlit)
    asm = db.func("orc_compiler_c_assemble", "orcprogram-c")
    lits = [strip_casts(c.args()[1]).get("str", "") for c in asm.calls("orc_compiler_append_code") if len(c.args()) > 1 and strip_casts(c.args()[1]).k == "StringLiteral"]
    # loop headers: the literal is instantiated into a scratch translation unit and its loop shape is read from the AST
    # (so `i++`, `i += 1`, `n > i` ... are all the same header)
    hdrs = [l for l in lits if re.search(r"for \((i|j)\b", l)]
    iloops = [l for l in hdrs if re.search(r"for \(i", l)]
    jloops = [l for l in hdrs if re.search(r"for \(j", l)]
    unit = ["void hdr_%d (int n, int m) { int i = 0, j = 0; %s ; } (void) i; (void) j; }" % (k, re.sub(r"%\*?s", "", l).replace("\n", " ").strip())
            for k, l in enumerate(hdrs)]
    shapes = {}
    if hdrs:
        from loops import counted
        sdb = ctx.snippet_db("loophdr", "\n".join(unit) + "\n")
        for k, l in enumerate(hdrs):
            g = sdb.tu("loophdr").fn.get("hdr_%d" % k)
            fl = [x for x in g.walk() if x.k == "ForStmt"] if g else []
            shapes[l] = counted(fl[0]) if len(fl) == 1 else None
    want_i = {"var": "i", "dir": "asc", "first": (None, 0), "last": ("n", -1)}
    want_j = {"var": "j", "dir": "asc", "first": (None, 0), "last": ("m", -1)}
    rep.check(len(iloops) >= 1 and all(shapes.get(l) == want_i for l in iloops), "D1b-GEN-TEMPLATE", where(asm), "element-loop",
              "generated element loop runs i = 0 .. n-1", "generated element loop header changed: %s -> %s" % (iloops, [shapes.get(l) for l in iloops]))
    rep.check(bool(jloops) and all(shapes.get(l) == want_j for l in jloops), "D1b-GEN-TEMPLATE", where(asm), "row-loop",
              "generated row loop runs j = 0 .. m-1", "generated row loop header changed: %s -> %s" % (jloops, [shapes.get(l) for l in jloops]))
    rows = [l for l in lits if "ORC_PTR_OFFSET" in l]
    # base + stride * j, whatever integer type the product is formed in (a cast of the stride is what D17 asks for)
    rep.check(rows and all(re.search(r"ptr%d = ORC_PTR_OFFSET\(%s,\s*(\([A-Za-z_0-9 ]+\)\s*)?%s \* j\)", l) for l in rows), "D1b-GEN-TEMPLATE", where(asm), "row-pointer",
              "row pointers are ORC_PTR_OFFSET(array, stride * j)", "row pointer template changed: %s" % rows)
    # const declaration for sources
    from flow import Facts
    fc = Facts(asm)
    okc = False
    badc = []
    for c in asm.calls("orc_compiler_append_code"):
        lit = strip_casts(c.args()[1])
        if lit.k == "StringLiteral" and "ORC_RESTRICT ptr%d;" in lit.get("str", ""):
            conds = fc.conds(c)
            lab = [x for x in conds if x[0] == "switch"]
            isconst = lit.get("str", "").lstrip().startswith("const ")
            vt = None
            for x in lab:
                vt = x[2]
            srcv = db.enum("ORC_VAR_TYPE_SRC")
            if vt == srcv:
                okc = isconst
                if not isconst:
                    badc.append("source pointer declared without const")
    rep.check(okc and not badc, "D1b-GEN-TEMPLATE", where(asm), "const-source-pointers", "source pointers are declared `const T * ORC_RESTRICT`",
              "generated source pointers are not const-qualified: a store through them would compile")

    # ---- D2 widths -------------------------------------------------------------------
    work = os.path.join(ctx.scratch, "w")
    os.makedirs(work, exist_ok=True)
    d2(db, rep, work)
    # D2b: the address the instruction encodes is the address the rule asked for
    from x86enc import check_disp8
    check_disp8(db, rep, "D2b-DISP8-RANGE")
    from x86enc import check_mod0_base
    check_mod0_base(db, rep, "D2b-MOD0-BASE")

    # ---- D3 / D4 ---------------------------------------------------------------------
    d34(db, rep)
    d5(db, rep)
    # D7: the three-region split always clamps the alignment prologue by n
    # n1 (elements until the destination is aligned) is computed from the address alone; the generated code must compare
    # it with ex->n and branch, whatever hints the program carries (n may be 0 or smaller than a vector even when the
    # program says `.n mult K`): on every path of orc_x86_emit_split_3_regions that emits anything, the compare against
    # OrcExecutor.n and a conditional branch are emitted.
    from flow import paths_avoiding as _pa3
    s3 = db.func("orc_x86_emit_split_3_regions", "orcprogram-x86")
    sd3 = single_defs(s3)
    emits3 = sorted([c for c in s3.calls() if c.name and c.name.startswith("orc_x86_emit_")], key=lambda c: (c.line, c.id))
    if not emits3:
        raise AnalysisBroken("orc_x86_emit_split_3_regions emits nothing")

    def is_cmp_n(e):
        return e.k == "CallExpr" and e.name and "cmp" in " ".join([e.name] + [str(m) for m in (e.mac or [])]).lower() and _slot_of_args(e.args(), sd3) == "n" or \
            (e.k == "CallExpr" and e.name in ("orc_x86_emit_cpuinsn_reg_memoffset_s", "orc_x86_emit_cpuinsn_reg_memoffset", "orc_x86_emit_cpuinsn_imm_memoffset") and
             _slot_of_args(e.args(), sd3) == "n" and "cmp" in unparse(e).lower())

    def is_branch(e):
        return e.k == "CallExpr" and e.name == "orc_x86_emit_cpuinsn_branch" and strip_casts(e.args()[1]).v is not None
    w1 = _pa3(s3, emits3[0], is_cmp_n)
    cmps = [c for c in s3.calls() if is_cmp_n(c)]
    w2 = _pa3(s3, cmps[0], is_branch) if cmps else [0]
    rep.check(w1 is None and w2 is None, "D7-REGION-CLAMP", where(s3), "n1<=n-clamp",
              "the alignment prologue count is compared with ex->n and branched on, on every emitting path",
              "orc_x86_emit_split_3_regions can finish without emitting the compare of n1 with ex->n and its branch: for n smaller than the "
              "alignment distance (e.g. n = 0) the prologue then copies past the end of the arrays and the main-loop counter goes negative")

    # D8: scratch slots of generated code (region counters, row counter) are stored before they are read
    import emitstate
    ptu = db.tu("orcprogram-x86")
    names = {}
    for fld in db.record("OrcExecutor")["fields"]:
        names.setdefault(fld["off"], fld["name"])
    names[db.field("OrcExecutor", "params")["off"] + 4 * db.enum("ORC_VAR_A2")] = "params[ORC_VAR_A2]"
    n8 = emitstate.check(ptu, rep, "D8-SCRATCH-DEF-BEFORE-USE", where, offset_names=names)
    if n8 < 6:
        raise AnalysisBroken("only %d emitted reads of generated-code scratch slots found in orcprogram-x86.c" % n8)

    d9_param_staging(db, rep)
    d11_stride_sign(db, rep)
    d12_displacement_agree(db, rep)
    # D13: the iteration space comes from the text.  The handlers of `.n` / `.m` walk the tokens of the line with a cursor: a
    # value token that is consumed without being stepped over is read again as the plain constant n (`.n max 16` then makes the
    # back ends unroll 16 elements whatever ex->n says) - rule shared with C15 (rules/c15.py d6_token_cursor)
    # D14: native loads/stores address memory through ex->arrays[variable]; for a variable that is no array the compile must fail
    import importlib
    importlib.import_module("rules.c05").array_operand_checked(db, rep, "D14-ARRAY-OPERAND-CHECKED")
    # D15: "for any ... alignment": an access whose displacement contains a program-chosen value is not emitted as aligned
    from x86enc import check_aligned_load_offsets
    check_aligned_load_offsets(db, rep, "D15-ALIGNED-ONLY-AT-LOOP-OFFSET")
    d17_row_offset_wide(db, rep)
    memop_width_from_request(db, rep)
    # D16: the code that runs is the program's CURRENT code: a stale attach-time copy of the entry point runs whatever was placed in
    # the freed chunk since - another program, over this one's arrays (shared with C06/C16/C17)
    importlib.import_module("rules.c06").snapshot_slots(db, rep, "D16-LIVE-CODE")
    from rules.c15 import d6_token_cursor
    SETN = ("orc_program_set_constant_n", "orc_program_set_n_multiple", "orc_program_set_n_minimum", "orc_program_set_n_maximum",
            "orc_program_set_constant_m", "orc_program_set_2d")
    d6_token_cursor(db, rep, names=("D13-DOTN-TOKEN-CURSOR", "D13b-DOTN-TOKEN-ONCE"), only=lambda f: any(c.name in SETN for c in f.calls()), floor=1)

    # D10: the region counters the split emitters compute tile ex->n on every path of the emitted code
    import emitsym
    n10 = 0
    for nm in ("orc_x86_emit_split_2_regions", "orc_x86_emit_split_3_regions"):
        n10 += emitsym.check_tiling(db.func(nm, "orcprogram-x86"), rep, "D10-REGION-TILING", where)
    if n10 < 3:
        raise AnalysisBroken("only %d emitted paths found in the region split emitters" % n10)

    # D6: registers parked around a scalar fallback come back unswapped (they hold the array pointers)
    from x86enc import check_save_restore
    xf = [f for f in db.all_functions() if f.relfile.startswith("orc/orcrules-") and ("sse" in f.relfile or "mmx" in f.relfile or "avx" in f.relfile)]
    n6 = check_save_restore(db, xf, rep, "D6-SAVE-RESTORE")
    if n6 < 2:
        raise AnalysisBroken("only %d emitters with parked registers found in the x86 rule files" % n6)


# ---------------------------------------------------------------------------
HELPER_SIG = {
    # name pattern -> (kind, size-arg, offset-arg, base-arg)
    "orc_x86_emit_mov_memoffset_reg": ("load", 1, 2, 3),
    "orc_x86_emit_mov_reg_memoffset": ("store", 1, 3, 4),
}
for _t in ("sse", "mmx", "avx"):
    HELPER_SIG["orc_x86_emit_mov_memoffset_%s" % _t] = ("load", 1, 2, 3)
    HELPER_SIG["orc_x86_emit_mov_%s_memoffset" % _t] = ("store", 1, 3, 4)
    HELPER_SIG["orc_x86_emit_mov_memindex_%s" % _t] = ("load", 1, 2, 3)


class Access:
    def __init__(self, node, kind, width, off, base, sym=None):
        self.node, self.kind, self.width, self.off, self.base, self.sym = node, kind, width, off, base, sym


def off_delta(n):
    t = unparse(n).replace(" ", "").strip("()")
    if t == "offset":
        return 0
    m = re.match(r"^offset\+(\d+)$", t)
    if m:
        return int(m.group(1))
    return None


class WidthOracle:
    def __init__(self, be, work):
        self.be = be
        self.work = work
        self.cache = {}

    def width(self, row, cls):
        key = (row, cls)
        if key in self.cache:
            return self.cache[key]
        r = self.be.rows[row]
        tn = self.be.tname.get(r["type"], "?")
        lines = [l.replace("%edi", "%rdi").replace("%ecx", "%ecx").replace("%edx", "%edx") for l in asm_forms(tn, r["name"], cls, "mem")]
        ws = x86ref.mem_widths(lines, self.work, "w%d_%s" % (row, cls)) if lines else []
        got = [w for w in ws if w is not None]
        self.cache[key] = got[0] if got else None
        return self.cache[key]


def accesses_of_call(be, oracle, f, c):
    """memory accesses a call statement makes to program arrays (not to the executor)."""
    nm = c.name or ""
    a = c.args()
    if nm in HELPER_SIG:
        kind, si, oi, bi = HELPER_SIG[nm]
        base = unparse(a[bi]) if bi < len(a) else ""
        if base.endswith("exec_reg") or base == "X86_ESP":
            return []
        w = strip_casts(a[si]).v
        sym = None if w is not None else unparse(a[si]).replace(" ", "")
        while sym and sym.startswith("(") and sym.endswith(")") and sym.count("(") == sym.count(")") and "(" not in sym[1:-1].split(")")[0] + "x" and sym[1:-1].count("(") == sym[1:-1].count(")"):
            sym = sym[1:-1]
        return [Access(c, kind, w, off_delta(a[oi]), base, sym)]
    if (nm.startswith("orc_x86_emit_cpuinsn") or nm.startswith("orc_vex_emit_")) and ("memoffset" in nm or "memindex" in nm):
        rows = be.row_values(f, a[1])
        if not rows:
            return []
        vex = nm.startswith("orc_vex_emit_")
        if vex:
            pv = strip_casts(a[-1]).v
            cls = "vex256" if pv == be.enums.get("ORC_X86_AVX_VEX256_PREFIX") else "vex128"
        else:
            ctxn = (f.tu.base + " " + f.name).lower()
            cls = "mm" if "mmx" in ctxn else "xmm"
        kind = "store" if "store" in nm else "load"
        texts = [unparse(x) for x in a]
        if any(t.endswith("exec_reg") or t == "X86_ESP" for t in texts):
            return []
        ws = {oracle.width(r, cls) for r in rows}
        w = ws.pop() if len(ws) == 1 else None
        offn = None
        for x in a[2:]:
            d = off_delta(x)
            if d is not None:
                offn = d
        return [Access(c, kind, w, offn, "", None)]
    return []


def case_groups(sw):
    """[(labels, [stmts])] of a switch body; default has label None."""
    body = sw.c[1]
    groups = []
    cur = None
    for st in body.kids():
        x = st
        labels = []
        while x is not None and x.k in ("CaseStmt", "DefaultStmt"):
            labels.append(x.get("lo") if x.k == "CaseStmt" else None)
            x = x.c[0] if x.c else None
        if labels:
            if cur is not None and not cur[2]:
                cur[0].extend(labels)     # case 1: case 2: (fallthrough labels without statements)
            else:
                cur = [labels, [], False]
                groups.append(cur)
            if x is not None:
                cur[1].append(x)
                if x.k == "BreakStmt":
                    cur[2] = True
            continue
        if cur is not None and not cur[2]:
            cur[1].append(st)
            if st.k == "BreakStmt":
                cur[2] = True
    return [(g[0], g[1]) for g in groups]


def paths(be, oracle, f, stmts):
    """all access sequences through a list of statements (branches fork)."""
    res = [[]]
    for st in stmts:
        if st is None or st.k == "BreakStmt":
            continue
        if st.k == "CompoundStmt":
            sub = paths(be, oracle, f, st.kids())
        elif st.k == "IfStmt":
            a = paths(be, oracle, f, [st.c[1]])
            b = paths(be, oracle, f, [st.c[2]]) if len(st.c) > 2 and st.c[2] is not None else [[]]
            sub = a + b
        elif st.k == "CallExpr":
            sub = [accesses_of_call(be, oracle, f, st)]
        else:
            acc = []
            for x in st.walk():
                if x.k == "CallExpr":
                    acc += accesses_of_call(be, oracle, f, x)
            sub = [acc]
        res = [r + s for r in res for s in sub]
        if len(res) > 64:
            raise AnalysisBroken("path explosion in %s" % f.name)
    return res


def entitled(kind, N):
    if kind in ("load", "store", "loadoff", "helper"):
        return ("exact", N)
    if kind == "loadupdb":
        return ("exact", max(1, N >> 1))
    if kind == "loadupib":
        return ("span", 1 if N == 1 else (N >> 1) + 1)
    return None


def d2(db, rep, work):
    nchk = 0
    for target in ("sse", "mmx", "avx"):
        be = Backend(db, target)
        oracle = WidthOracle(be, work)
        # layer 1: move helpers
        helpers = []
        for t in db.tus.values():
            for f in t.main_functions():
                if re.match(r"^orc_x86_emit_mov_(memoffset|memindex)_%s$|^orc_x86_emit_mov_%s_(memoffset|memindex)$" % (target, target), f.name):
                    helpers.append(f)
        if len(helpers) < 2:
            raise AnalysisBroken("%s: move helpers not found" % target)
        rulesfn = []
        for f in be.rules_tu.main_functions():
            m = re.match(r"^%s_rule_(loadX|loadoffX|loadupdb|loadupib|storeX)(_avx2)?$" % target, f.name)
            if m:
                rulesfn.append((f, {"loadX": "load", "loadoffX": "loadoff", "storeX": "store"}.get(m.group(1), m.group(1))))
        if len(rulesfn) < 5:
            raise AnalysisBroken("%s: load/store rules not found (%d)" % (target, len(rulesfn)))
        for f, kind in [(h, "helper") for h in helpers] + rulesfn:
            rep.saw(f)
            sws = [n for n in f.walk() if n.k == "SwitchStmt" and re.search(r"size", unparse(n.c[0]))]
            sd = single_defs(f)
            # array variable the rule addresses
            arrvar = "dest" if kind == "store" else "src"
            handled = False
            for sw in sws:
                st = unparse(sw.c[0]).replace(" ", "")
                if kind != "helper":
                    # only the switch on the ENTITLED size: var->size << loop_shift (directly or via a local)
                    e = strip_casts(sw.c[0])
                    if e.k == "DeclRefExpr" and e.name in sd:
                        st = unparse(sd[e.name]).replace(" ", "")
                    if "loop_shift" not in st:
                        continue
                    if not st.startswith("(%s->size<<" % arrvar):
                        rep.violation("D2-WIDTH", where(f), "switch(%s)" % st, "size switch of a %s rule is on `%s`, not on %s->size << loop_shift" % (kind, st, arrvar), line=sw.line)
                        continue
                else:
                    if st != "size":
                        continue
                handled = True
                for labels, stmts in case_groups(sw):
                    ps = paths(be, oracle, f, stmts)
                    for N in labels:
                        for pth in ps:
                            acc = [a for a in pth if a.kind in ("load", "store")]
                            if N is None:
                                # default arm: symbolic widths only (AVX `size >> 1` idiom) or an error path
                                if not acc:
                                    continue
                                syms = [(a.sym, a.off) for a in acc]
                                ok = (kind == "loadupib" and [s for s, _ in syms] == ["size>>1", "size>>1"] and sorted(o for _, o in syms) == [0, 1]) or \
                                    (kind == "loadupdb" and syms == [("size>>1", 0)])
                                nchk += 1
                                rep.check(ok, "D2-WIDTH", where(f), "default", "default arm reads size>>1 at offset and offset+1",
                                          "default arm of the size switch accesses %s" % syms, line=acc[0].node.line)
                                continue
                            if not acc:
                                # error arm (orc_compiler_error) or no memory access
                                continue
                            nchk += 1
                            ent = entitled(kind, N)
                            if any(a.width is None for a in acc):
                                rep.violation("D2-WIDTH", where(f), "case %d" % N,
                                              "case %d: width of `%s` could not be determined" % (N, unparse(acc[0].node)[:80]), line=acc[0].node.line)
                                continue
                            if ent[0] == "exact":
                                ok = len(acc) == 1 and acc[0].width == ent[1]
                                got = "+".join(str(a.width) for a in acc)
                            else:
                                offs = [(a.off if a.off is not None else 0, a.width) for a in acc]
                                span = max(o + w for o, w in offs) - min(o for o, w in offs)
                                ok = span == ent[1]
                                got = "span %d (%s)" % (span, offs)
                            rep.check(ok, "D2-WIDTH", where(f), "case %d%s" % (N, "" if len(ps) == 1 else ":path%d" % ps.index(pth)),
                                      "%s of %d byte(s) for %d entitled" % (kind, ent[1], ent[1]),
                                      "%s `case %d`: generated code touches %s byte(s) of the array where %d are entitled (%s)" %
                                      (f.name, N, got, ent[1], "; ".join(unparse(a.node)[:60] for a in acc)), line=acc[0].node.line)
            if not handled and kind != "helper":
                # expression idiom (AVX): the width argument is the entitlement expression itself
                accs = []
                for c in f.calls():
                    accs += accesses_of_call(be, oracle, f, c)
                accs = [a for a in accs if a.kind in ("load", "store")]
                want = "%s->size<<compiler->loop_shift" % arrvar
                exp = {"load": [want], "store": [want], "loadoff": [want], "loadupdb": ["(%s)>>1" % want, want + ">>1"]}.get(kind, [])
                nchk += 1
                ok = len(accs) >= 1 and all((a.sym or "").strip("()") in [e.strip("()") for e in exp] for a in accs)
                rep.check(ok, "D2-WIDTH", where(f), "width-expression", "width argument is the entitlement expression %s" % exp,
                          "%s passes width `%s` to the move helper; entitled is %s" % (f.name, [a.sym or a.width for a in accs], exp),
                          line=accs[0].node.line if accs else None)
    if nchk < 60:
        raise AnalysisBroken("only %d width obligations generated" % nchk)


def _slot_of_args(args, sd):
    """executor slot named by an ORC_STRUCT_OFFSET inside the arguments (locals resolved)."""
    for x in args:
        if x is None:
            continue
        todo = [x]
        for y in x.walk():
            if y.k == "DeclRefExpr" and y.name in sd:
                todo.append(sd[y.name])
        for y in todo:
            for z in y.walk():
                if z.k == "OffsetOfExpr":
                    return unparse(z)[len("offsetof(OrcExecutor, "):-1]
    return None


POINTER_MOVERS = ("orc_x86_emit_mov_memoffset_reg", "orc_x86_emit_mov_reg_memoffset", "orc_x86_emit_add_reg_memoffset",
                  "orc_x86_emit_add_imm_memoffset", "orc_x86_emit_add_memoffset_reg")
D5_EXCLUDED = {"orc_x86_assemble_copy": "dead code in this tree (reached only after a compile error, never encoded; see C12 EXCLUDED_ROWS)"}


def d5(db, rep):
    """D5: the array pointers kept in OrcExecutor.arrays[] are loaded, stored and advanced at pointer width.  A 4-byte add on
    a 64-bit pointer slot loses the carry into the high half: the next row is accessed 4 GiB away from its array."""
    n = 0
    rows = [r for r in init_rows(db.tu("orcx86insn").global_("orc_x86_opcodes"))]
    sizepos = {}
    for g in list(db.tu("orcx86insn").main_functions()) + list(db.tu("orcx86").main_functions()):
        pn = [p["name"] for p in g.params]
        if "size" in pn:
            sizepos[g.name] = (pn.index("size"), pn.index("index") if "index" in pn else None)
    for f in db.all_functions():
        if not (f.relfile.startswith("orc/") and ("x86" in f.relfile or "sse" in f.relfile or "avx" in f.relfile or "mmx" in f.relfile)):
            continue
        if f.name in D5_EXCLUDED:
            continue
        sd = single_defs(f)
        for c in f.calls():
            if c.name not in sizepos:
                continue
            a = c.args()
            slot = _slot_of_args(a, sd)
            if slot is None or not slot.startswith("arrays["):
                continue
            idx = slot[len("arrays["):-1]
            if idx.startswith("ORC_VAR_T") or idx.startswith("ORC_VAR_C") or idx.startswith("ORC_VAR_P") or idx.startswith("ORC_VAR_A"):
                continue        # scratch use of the upper slots (constants, accumulators): not array pointers
            spos, ipos = sizepos[c.name]
            # which instruction: the helper's own name, or the table row named by the opcode-index argument
            mnem = None
            if "_mov_" in c.name:
                mnem = "mov"
            elif ipos is not None and len(a) > ipos:
                ia = strip_casts(a[ipos])
                cands = [ia] if ia.k != "ConditionalOperator" else [strip_casts(ia.c[1]), strip_casts(ia.c[2])]
                names = {rows[x.v]["name"] for x in cands if x is not None and x.v is not None and x.v < len(rows) and isinstance(rows[x.v], dict)}
                if len(names) >= 1:
                    mnem = sorted(names)[0]
            if mnem is None:
                raise AnalysisBroken("%s: instruction of %s on arrays[%s] not identified" % (f.name, c.name, idx))
            if not (mnem.startswith("add") or mnem.startswith("mov") or mnem.startswith("lea")):
                continue        # sub/and/test/cmp into a register: alignment arithmetic on the low bits
            size = strip_casts(a[spos])
            ptrsize = size is not None and size.k == "ConditionalOperator" and unparse(strip_casts(size.c[0])).endswith("is_64bit") and \
                strip_casts(size.c[1]).v == 8 and strip_casts(size.c[2]).v == 4
            n += 1
            rep.check(ptrsize, "D5-POINTER-WIDTH", where(f), "%s@arrays[%s]" % (mnem, idx),
                      "array pointer slot accessed at pointer width (is_64bit ? 8 : 4)",
                      "%s accesses the array pointer in OrcExecutor.arrays[%s] with `%s` of operand size `%s`: on x86-64 the upper half of the pointer is "
                      "not updated/loaded, so the generated code reaches memory 4 GiB away from the array" % (f.name, idx, mnem, unparse(size)), line=c.line)
    if n < 8:
        raise AnalysisBroken("only %d pointer-slot accesses found" % n)


def d34(db, rep):
    n3 = n4 = 0
    for target in ("sse", "mmx", "avx"):
        be = Backend(db, target)
        regs = be.registrations()
        store_ops = set()
        orows = [r for r in init_rows(db.tu("orcopcodes-sys").global_("opcodes")) if isinstance(r, dict) and r.get("name")]
        STORE = db.macro_int("ORC_STATIC_OPCODE_STORE")
        store_names = {r["name"] for r in orows if r["flags"] & STORE}
        store_rule_fns = {fn for fn, op, w in regs if op in store_names}
        other_rule_fns = {fn for fn, op, w in regs} - store_rule_fns
        for fn in sorted({fn for fn, _, _ in regs}):
            f = db.func(fn, be.rules_tu.base[:-2])
            sd = single_defs(f)
            for c in f.calls():
                nm = c.name or ""
                if not nm:
                    continue
                is_store = nm in HELPER_SIG and HELPER_SIG[nm][0] == "store" or "store_memoffset" in nm or "store_memindex" in nm
                if not is_store:
                    continue
                a = c.args()
                texts = [unparse(x) for x in a]
                to_exec = any(t.endswith("exec_reg") or t == "X86_ESP" for t in texts)
                if to_exec:
                    # D4: slot must be in the closed set
                    slot = _slot_of_args(a, sd)
                    if slot is None:
                        if any(t == "X86_ESP" for t in texts):
                            continue
                        rep.violation("D4-EXEC-SLOTS", where(f), "store@%s" % nm, "store into the executor at an offset that is not an ORC_STRUCT_OFFSET of a known slot: `%s`" % unparse(c)[:100], line=c.line)
                        continue
                    n4 += 1
                    from rules.c03 import SLOT_TABLE as ST
                    ok = any(re.match(p, slot) for p, _ in ST)
                    rep.check(ok, "D4-EXEC-SLOTS", where(f), "slot:%s" % slot, "generated code writes executor slot %s (allowed)" % slot,
                              "rule %s makes generated code write OrcExecutor.%s, which is not one of the scratch slots (would corrupt the caller's executor: array pointers, n, program)" % (fn, slot), line=c.line)
                    continue
                n3 += 1
                ok = fn in store_rule_fns
                base = None
                if nm in HELPER_SIG:
                    base = strip_casts(a[HELPER_SIG[nm][3]])
                else:
                    # cpuinsn_store_memoffset(p, row, size, imm, offset, src, dest-base ...)
                    for x in reversed(a):
                        xs = strip_casts(x)
                        if xs is not None and xs.k == "DeclRefExpr" and xs.get("dk") in ("local", "param") and "reg" in xs.name:
                            base = xs
                            break
                btxt = unparse(base) if base is not None else "?"
                # base register must come from the destination variable
                okb = False
                if base is not None and base.k == "DeclRefExpr":
                    defs = []
                    for n in f.walk():
                        if n.k == "BinaryOperator" and n.op == "=" and access_path(n.c[0]) == base.name:
                            defs.append(unparse(n.c[1]))
                        if n.k == "VarDecl" and n.name == base.name and n.c and n.c[0] is not None:
                            defs.append(unparse(n.c[0]))
                    okb = bool(defs) and all(d in ("dest->ptr_register", "compiler->gp_tmpreg", "0") for d in defs)
                    if "compiler->gp_tmpreg" in defs:
                        # the scratch register must have been loaded from the destination's pointer slot
                        ld = [unparse(x) for x in f.calls("orc_x86_emit_mov_memoffset_reg")]
                        okb = okb and any("dest->ptr_offset" in t or "arrays[insn->dest_args[0]]" in t for t in ld)
                rep.check(ok and okb, "D3-WHO-MAY-STORE", where(f), "%s(base=%s)" % (nm, btxt),
                          "array store in a store rule through the destination variable's pointer",
                          "%s emits a store to array memory through `%s`%s" % (fn, btxt, "" if ok else " although it is not a rule of a STORE opcode: generated code could write to a source array"),
                          line=c.line)
    if n3 < 9:
        raise AnalysisBroken("only %d array store sites found in the rules" % n3)
    rep.ok("D4-EXEC-SLOTS", "orc/", "count", "%d executor-slot stores in rule functions examined" % n4)
    # skeleton / helper emitters: same closed set
    for t in db.tus.values():
        if not (t.base.startswith("orcprogram-") or t.base in ("orcx86.c", "orcsse.c", "orcavx.c", "orcmmx.c")):
            continue
        if any(x in t.base for x in ("neon", "arm", "mips", "altivec", "c64x", "orcprogram-c.c")):
            continue
        for f in t.main_functions():
            sd = single_defs(f)
            for c in f.calls():
                nm = c.name or ""
                if not (nm in HELPER_SIG and HELPER_SIG[nm][0] == "store" or "store_memoffset" in nm or "imm_memoffset" in nm or "reg_memoffset_s" in nm or nm == "orc_x86_emit_dec_memoffset"):
                    continue
                a = c.args()
                texts = [unparse(x) for x in a]
                if not any(tx.endswith("exec_reg") for tx in texts):
                    continue
                # read-only rows (cmp/test) are not stores
                rowv = strip_casts(a[1]).v if len(a) > 1 else None
                slot = _slot_of_args(a, sd)
                if slot is None:
                    continue
                rname = None
                if rowv is not None:
                    xr = init_rows(db.tu("orcx86insn").global_("orc_x86_opcodes"))
                    if 0 <= rowv < len(xr):
                        rname = xr[rowv]["name"]
                if (rname or "").startswith(("cmp", "test")):
                    continue
                if "cmp" in unparse(c.c[0]) or "test" in unparse(c.c[0]) or ("imm_memoffset" in nm and rowv is not None and rowv in (db.enum("ORC_X86_cmp_imm8_rm"), db.enum("ORC_X86_cmp_imm32_rm"), db.enum("ORC_X86_test_imm"))):
                    continue
                ok = any(re.match(p, slot) for p, _ in SLOT_TABLE)
                rep.check(ok, "D4-EXEC-SLOTS", where(f), "slot:%s" % slot, "skeleton writes executor slot %s (allowed)" % slot,
                          "%s makes generated code write OrcExecutor.%s, which is not one of the scratch slots" % (f.name, slot), line=c.line)
    rep.floor("D4-EXEC-SLOTS", 20)


def d9_param_staging(db, rep, rule="D9-PARAM-STAGING"):
    """D9: the emulator stages a 4-byte parameter as a 64-bit value that the offset / resampling loads use as a SIGNED element
    index (array[i + offset]).  A negative parameter must therefore arrive sign-extended: on its way from the executor's int
    slot to the 64-bit argument of the staging call the value must not pass through an unsigned type narrower than 64 bits
    (that zero-extends: -1 becomes +4294967295 and the load goes 4 GiB past the array).  Pure type-level rule; the halves
    of an 8-byte parameter, which are OR-ed together, are the opposite case and are judged by the widening rule (C02 D4)."""
    from widen import INT_TYPES
    ee = db.func("orc_executor_emulate", "orcexecutor")
    rep.saw(ee)
    n = 0
    for c in ee.calls("load_constant"):
        a = c.args()
        if len(a) < 3:
            continue
        # every expression that flows into the staged value: the argument itself and, through the function's locals, the
        # definitions that can reach the call (a value prepared in a local, scaled, passed on ...)
        from flow import reaching_defs
        roots, todo, seenl = [], [a[2]], set()
        while todo:
            e = todo.pop()
            top = strip_casts(e)
            if top is not None and top.k == "BinaryOperator" and top.op == "|":
                continue                                    # two halves assembled: widening rule (C02 D4)
            roots.append(e)
            for y in e.walk():
                if y.k == "DeclRefExpr" and y.get("dk") == "local" and y.name not in seenl:
                    seenl.add(y.name)
                    ors = [x for x in ee.walk() if x.k == "CompoundAssignOperator" and x.op == "|=" and access_path(x.c[0]) == y.name]
                    if any(ee.dominates(o, c) for o in ors):
                        continue                            # the high half is OR-ed in on every path: widening rule
                    for d in reaching_defs(ee, y.name, c):
                        rhs = d.c[1] if d.k == "BinaryOperator" else (d.c[0] if d.c else None)
                        if rhs is not None:
                            todo.append(rhs)
        for v in roots:
            for x0 in [x for x in v.walk() if x.k == "ArraySubscriptExpr" and (access_path(x.c[0]) or "").endswith("->params")]:
                n += 1
                bad = None
                x = x0
                while x is not None and x is not v.parent:
                    if x.k == "CStyleCastExpr":
                        t = INT_TYPES.get((x.get("toty") or "").replace("const ", "").strip())
                        if t is not None and not t[1] and t[0] < 64:
                            bad = x.get("toty")
                    if x is v:
                        break
                    x = x.parent
                rep.check(bad is None, rule, where(ee), "load_constant(%s)" % unparse(v)[:50],
                          "the int parameter slot reaches the 64-bit staging value by sign extension",
                          "orc_executor_emulate stages a 4-byte parameter through `(%s)`: a negative run-time offset or start position is zero-extended to "
                          "about +2^32 and loadoffX / ldresnearX / ldreslinX, which use it as a signed element index, read gigabytes past the source array" % bad, line=c.line)
    if n < 1:
        raise AnalysisBroken("orc_executor_emulate: staging of 4-byte parameters (load_constant (.., 8, ex->params[..])) not found")


def d11_stride_sign(db, rep, rule="D11-STRIDE-SIGN"):
    """D11: a 2-D stride is a signed int in ex->params[i]; generated code adds it to a pointer.  Where that add is pointer-sized
    on a 64-bit target, the stride must have been loaded with sign extension: a plain 4-byte load (which zero-extends on
    x86-64) may only be emitted on paths where the target is known to be 32-bit."""
    from flow import Facts
    n = 0
    for f in db.tu("orcprogram-x86").main_functions():
        loads, adds = [], []
        for c in f.calls():
            if not c.name or "memoffset" not in c.name:
                continue
            a = c.args()
            opath = next((z.get("opath") for x in a for z in x.walk() if z.k == "OffsetOfExpr"), None)
            if opath is None:
                continue
            rows = [x.name for x in a[1].walk() if x.k == "DeclRefExpr" and (x.name or "").startswith("ORC_X86_")] if len(a) > 1 else []
            if opath.startswith("params") and (c.name == "orc_x86_emit_mov_memoffset_reg" or c.name == "orc_x86_emit_cpuinsn_memoffset_reg"):
                size = strip_casts(a[1]).v if c.name == "orc_x86_emit_mov_memoffset_reg" else strip_casts(a[2]).v
                signext = any("movslq" in r or "movsx" in r for r in rows)
                loads.append((c, unparse(strip_casts(a[-1])), size, signext))
            elif opath.startswith("arrays") and any(r.startswith("ORC_X86_add") for r in rows):
                sz = a[2] if c.name.startswith("orc_x86_emit_cpuinsn") else a[1]
                may8 = strip_casts(sz).v == 8 or any(strip_casts(y) is not None and strip_casts(y).v == 8 for y in sz.walk())
                reg = [unparse(strip_casts(x)) for x in a[3:]]
                adds.append((c, reg, may8))
        if not loads or not adds:
            continue
        fc = Facts(f)
        for c, reg, size, signext in loads:
            if not any(reg in regs and may8 for _, regs, may8 in adds):
                continue
            n += 1
            rep.saw(f)
            if signext:
                rep.ok(rule, where(f), "load:%s@%s" % (reg, c.line), "the stride is loaded with sign extension")
                continue
            only32 = any(cc[0] != "switch" and cc[1] is False and (access_path(strip_casts(cc[0])) or "").endswith("is_64bit") for cc in fc.conds(c))
            rep.check(only32, rule, where(f), "load:%s@%s" % (reg, c.line),
                      "the zero-extending %s-byte load of the stride is emitted for 32-bit targets only" % size,
                      "%s loads the int stride ex->params[i] into %s with a plain %s-byte mov and then adds the whole register to the 8-byte pointer in "
                      "ex->arrays[i]: on x86-64 the load zero-extends, so a negative stride moves the pointer forward by almost 4 GiB after the first row" %
                      (f.name, reg, size), line=c.line)
    if n < 1:
        raise AnalysisBroken("no stride load feeding a pointer-sized add found in orcprogram-x86.c")


def d12_displacement_agree(db, rep):
    """D12: a load/store rule addresses its array as  pointer register + displacement, the displacement being the byte offset of
    the current element (compiler->offset scaled by the element size, halved for the up-sampling loads).  Whatever the
    formula, every memory access the rule emits through that pointer register must use the SAME variable part of the
    displacement - only an additive constant may differ (second element of an interpolating load).  An arm of the size switch
    that uses another expression reads or writes other elements than its siblings."""
    from flow import linear, single_defs
    from x86guard import Backend
    orows = {r["name"]: r for r in init_rows(db.tu("orcopcodes-sys").global_("opcodes")) if isinstance(r, dict) and r.get("name")}
    LS = db.macro_int("ORC_STATIC_OPCODE_LOAD") | db.macro_int("ORC_STATIC_OPCODE_STORE")
    n = 0
    for target in ("sse", "mmx", "avx"):
        be = Backend(db, target)
        done = set()
        for fn, op, w in be.registrations():
            if fn is None or fn in done or op not in orows or not (orows[op]["flags"] & LS):
                continue
            done.add(fn)
            f = db.func(fn, be.rules_tu.base[:-2])
            sd = single_defs(f)
            disp = {}
            for c in f.calls():
                if not c.name or "memoffset" not in c.name:
                    continue
                a = c.args()
                # the displacement is the argument bound to the callee's parameter called `offset`; the base any argument naming a
                # pointer register
                try:
                    callee = db.func(c.name)
                except AnalysisBroken:
                    continue
                oi = [i for i, pr in enumerate(callee.params) if pr["name"] == "offset"]
                if not oi or oi[0] >= len(a):
                    continue
                for k, x in enumerate(a):
                    t = unparse(strip_casts(x))
                    if ("ptr_reg" in t or "ptr_register" in t) and k > 0:
                        cand = [a[oi[0]]]
                        for o in cand:
                            l = linear(o, lambda nm: sd.get(nm))
                            if l is not None and l[0]:
                                disp.setdefault(t, {}).setdefault(l[0], []).append((c, unparse(o)))
                                break
                            so = strip_casts(o)
                            if so is not None and so.k in ("BinaryOperator", "DeclRefExpr", "MemberExpr") and so.v is None:
                                d = sd.get(so.name) if so.k == "DeclRefExpr" else so
                                disp.setdefault(t, {}).setdefault(unparse(strip_casts(d)) if d is not None else unparse(so), []).append((c, unparse(o)))
                                break
            for base, forms in disp.items():
                if sum(len(v) for v in forms.values()) < 2:
                    continue
                n += 1
                rep.saw(f)
                bad = len(forms) > 1
                ex = sorted(forms.items(), key=lambda kv: -len(kv[1]))
                rep.check(not bad, "D12-DISPLACEMENT-AGREE", where(f), "%s:%s" % (target, base),
                          "all %d accesses through %s use the displacement `%s` (+ constant)" % (sum(len(v) for v in forms.values()), base, ex[0][0][:50]),
                          "%s addresses its array through %s with different displacements in different arms: `%s` (%d sites) but `%s` at line %s - that arm "
                          "accesses other elements than the opcode refers to (out of bounds for some n)" %
                          (fn, base, ex[0][0][:60], len(ex[0][1]), ex[-1][0][:60] if bad else "", ex[-1][1][0][0].line if bad else "?"),
                          line=ex[-1][1][0][0].line if bad else f.line)
    if n < 6:
        raise AnalysisBroken("only %d load/store rules with several accesses found" % n)



def d17_row_offset_wide(db, rep, rule="D17-ROW-OFFSET-WIDE"):
    """D17: "for any ... stride and row count".  The address of row j of a 2-D array is base + stride * j.  Strides and row
    indices are ints; their product must be formed in a type as wide as a pointer (one factor cast to a 64-bit / pointer-sized
    integer first), or a large stride wraps and the row is read and written far from the array.  Judged for every
    ORC_PTR_OFFSET (base, a * b) in the emulator and for the row-pointer templates the C back end prints."""
    import re
    WIDE = ("orc_int64", "orc_uint64", "orc_intptr", "long", "ptrdiff_t", "size_t", "intptr_t", "long long")
    n = 0
    ee = db.func("orc_executor_emulate", "orcexecutor")
    rep.saw(ee)
    for x in ee.walk():
        # ORC_PTR_OFFSET expands to a cast of (unsigned char *)base + (offset)
        if x.k != "BinaryOperator" or x.op != "+" or "*" not in (x.ty or ""):
            continue
        off = strip_casts(x.c[1])
        while off is not None and off.k == "ParenExpr":
            off = strip_casts(off.c[0])
        if off is None or off.k != "BinaryOperator" or off.op != "*":
            continue
        if not any(y.k == "MemberExpr" and y.name == "params" for y in off.walk()):
            continue
        n += 1
        wide = any(z.k == "CStyleCastExpr" and any(w in (z.get("toty") or "") for w in WIDE) for z in off.c[0].walk()) or \
            any(z.k == "CStyleCastExpr" and any(w in (z.get("toty") or "") for w in WIDE) for z in off.c[1].walk()) or \
            any(w in (off.ty or "") for w in WIDE)
        rep.check(wide, rule, where(ee), "emulate:row-offset@%s" % x.line,
                  "stride * row index is formed in a 64-bit type",
                  "orc_executor_emulate computes the row offset `%s` in int: a stride of 1 GiB overflows at the third row and the emulator accesses memory "
                  "2 GiB away from the array" % unparse(off)[:60], line=x.line)
    ca = db.func("orc_compiler_c_assemble", "orcprogram-c")
    rep.saw(ca)
    for c in ca.calls("orc_compiler_append_code"):
        a = c.args()
        lit = strip_casts(a[1]) if len(a) > 1 else None
        t = lit.get("str", "") if lit is not None and lit.k == "StringLiteral" else ""
        m = re.search(r"ORC_PTR_OFFSET\(%s,\s*(.*?)\*\s*j\)", t)
        if not m:
            continue
        n += 1
        rep.check(any(w in m.group(1) for w in WIDE), rule, where(ca), "c-backend:row-pointer@%s" % c.line,
                  "the generated row pointer multiplies in a 64-bit type",
                  "the C back end prints `%s`: stride and row index are ints in the generated function, their product overflows for large strides" % t.strip()[:70],
                  line=c.line)
    if n < 4:
        raise AnalysisBroken("only %d row-offset computations found (emulator + C back end)" % n)
    n += c_index_products_wide(db, rep, rule)
    return n


def c_index_products_wide(db, rep, rule):
    """The same for the element index of the resampling loads: the C back end prints `ptr[(p1 + i*p2) >> 16]`, a 16.16 position.
    With int operands `i * p2` leaves the range of int after 32768 elements at scale 1.0 - the index wraps negative and the
    generated C reads BEFORE the source array, where the emulator (64-bit operands) reads the right element.  Every printed
    subscript that multiplies the loop index by a printed operand forms the product in a 64-bit type, unless the template is the
    emulator flavour's (ORC_TARGET_C_OPCODE), whose operand names are 64 bits wide.  (Shared by C04.)"""
    import re
    from flow import Facts
    WIDE = ("orc_int64", "orc_uint64", "orc_intptr", "long", "ptrdiff_t", "size_t", "intptr_t")
    n = 0
    for f in db.tu("orcprogram-c").main_functions():
        fc = None
        for c in {c.id: c for c in f.calls("orc_compiler_append_code")}.values():
            a = c.args()
            lit = strip_casts(a[1]) if len(a) > 1 else None
            t = lit.get("str", "") if lit is not None and lit.k == "StringLiteral" else ""
            m = re.search(r"ptr%d\[([^\]]*\bi\)?\s*\*\s*%s[^\]]*)\]", t)
            if not m:
                # the position kept in a local first (`int tmp = p1 + i * p2;  ... ptr[tmp>>16]`): the local's type is the width
                m2 = re.search(r"^\s*([A-Za-z_][A-Za-z_0-9 ]*?)\s+tmp\s*=\s*%s\s*\+[^;]*\bi\)?\s*\*\s*%s", t)
                if m2:
                    n += 1
                    rep.saw(f)
                    rep.check(m2.group(1).strip() in WIDE, rule, where(f), "c-backend:position-local@%s" % c.line, "the 16.16 position is kept in a 64-bit local",
                              "%s prints `%s`: the position wraps negative after 32768 elements at scale 1.0 and the load reads before the source array - in "
                              "generated C and, through the same template, in the emulator itself" % (f.name, t.strip()[:70]), line=c.line)
                continue
            n += 1
            rep.saw(f)
            ok = any(w in m.group(1) for w in WIDE)
            if not ok:
                fc = fc or Facts(f)
                for cd in fc.conds(c):
                    if cd[0] != "switch" and cd[1] and "ORC_TARGET_C_OPCODE" in unparse(cd[0]) or (cd[0] != "switch" and cd[1] and "& 16" in unparse(cd[0])):
                        ok = True
                if not ok:
                    for x in f.walk():
                        if x.k == "IfStmt" and x.c[1] is not None and any(y.id == c.id for y in x.c[1].walk()) and "target_flags" in unparse(x.c[0]):
                            tx = unparse(x.c[0])
                            if "ORC_TARGET_C_OPCODE" in tx or str(db.enum("ORC_TARGET_C_OPCODE")) in tx:
                                ok = True
            rep.check(ok, rule, where(f), "c-backend:index-product@%s" % c.line, "loop index times operand is formed in a 64-bit type",
                      "%s prints `%s`: index and operand are ints in the generated function, the product overflows beyond 32768 elements at scale 1.0 and the "
                      "generated C reads before the source array where emulation reads the right element" % (f.name, t.strip()[:70]), line=c.line)
    if n < 2:
        raise AnalysisBroken("only %d index products found in the C back end's templates" % n)
    return n



def memop_width_from_request(db, rep, rule="D18-MEMOP-WIDTH"):
    """The x86 helpers that operate on memory (`orc_x86_emit_*_memoffset (compiler, size, ..., offset, reg)`) are told the width of
    the memory operand by their caller: 4 for the int counters and parameters in the OrcExecutor, pointer size for the array
    pointers.  For every width a caller really asks for (constant arguments, and `is_64bit ? 8 : 4` evaluated both ways), every
    encoder call the helper can reach under that width must be given exactly that width: a helper that widens a 4-byte
    read-modify-write to 8 bytes also rewrites the neighbouring field (counter2's neighbour is counter3, the element count of the
    last region - the loop then runs past every array)."""
    from exprval import evaluate, reachable_under, NotPure
    from facts import init_rows
    tu = db.tu("orcx86")
    rows = init_rows(db.tu("orcx86insn").global_("orc_x86_opcodes"))
    WR = {db.enum("ORC_X86_INSN_TYPE_" + t) for t in ("IMM8_REGM", "IMM32_REGM", "IMM32_REGM_MOV", "REGM", "REG_REGM", "REG8_REGM", "REG16_REGM")}

    def writes_memory(c):
        # the forms whose r/m operand is a destination: op $imm, mem / op mem / mov reg, mem.  (Loads - REGM_REG - read only; for
        # movzx the encoder's size is the width of the REGISTER, the byte access is the instruction's own.)
        v = strip_casts(c.args()[1]).v if len(c.args()) > 1 else None
        ty = rows[v].get("type") if v is not None and 0 <= v < len(rows) else None
        return ty is not None and ty in WR
    helpers = {}
    for f in tu.main_functions():
        if not any(p_["name"] == "size" for p_ in f.params):
            continue
        enc = [c for c in {c.id: c for c in f.calls()}.values() if c.name and c.name.startswith("orc_x86_emit_cpuinsn") and "memoffset" in c.name
               and writes_memory(c)]
        if enc:
            helpers[f.name] = (f, enc)
    if len(helpers) < 3:
        raise AnalysisBroken("only %d x86 memory-writing helpers with a size parameter found" % len(helpers))
    asked = {h: set() for h in helpers}
    for t in db.tus.values():
        for g in t.main_functions():
            for c in g.calls():
                if c.name in helpers:
                    f = helpers[c.name][0]
                    idx = [p_["name"] for p_ in f.params].index("size")
                    if idx >= len(c.args()):
                        continue
                    for is64 in (0, 1):
                        try:
                            asked[c.name].add(evaluate(c.args()[idx], {"compiler->is_64bit": is64, "p->is_64bit": is64, "c->is_64bit": is64}))
                        except (NotPure, ValueError, ZeroDivisionError, KeyError):
                            pass
    n = 0
    for h, (f, enc) in sorted(helpers.items()):
        cn = f.params[0]["name"]
        for s in sorted(asked[h]):
            if s not in (1, 2, 4, 8):
                continue
            for is64 in (0, 1):
                if s == 8 and not is64:
                    continue
                env = {"size": s, "%s->is_64bit" % cn: is64}
                for c in enc:
                    if not reachable_under(f, env, lambda e, c=c: e.id == c.id):
                        continue
                    try:
                        got = evaluate(c.args()[2], env)
                    except (NotPure, ValueError, ZeroDivisionError, KeyError):
                        continue
                    n += 1
                    if got != s:
                        rep.saw(f)
                    rep.check(got == s, rule, where(f), "%s(size=%d,is_64bit=%d)@%s" % (h, s, is64, c.line),
                              "the memory operand has the width the caller asked for",
                              "%s is called with size %d, but the encoder call at line %s is given %d (is_64bit = %d): the instruction reads and writes %d bytes "
                              "of the OrcExecutor where the field has %d - the neighbouring field is rewritten as well" % (h, s, c.line, got, is64, got, s),
                              line=c.line)
    if n < 4:
        raise AnalysisBroken("only %d (helper, width) pairs evaluated" % n)
    return n
