"""C06 — every fallback path still gives the emulation result (structural part).

  D1 R-PAIR  OS resources of the code-memory allocator are released on every exit
  D2 R-SENT  each acquisition is compared with ITS failure sentinel before use
  D3 R-ORDER the acquisition chain tries every method before giving up
  D4 R-ORDER the init probe forces backup+emulate when no executable mapping exists
  D5 R-ONCE  executor dispatch calls exactly one implementation exactly once
D6 R-NULL  every value stored into program->code_exec by the compile driver is a definite function pointer
           (backup function only where it is known non-NULL, else orc_executor_emulate)
"""
from facts import AnalysisBroken, access_path, strip_casts, unparse
from flow import Facts, describe_path, atom
from pairing import assigned_var, failure_edge, live_exit_paths, call_with_arg
from rules_common import where

SENT = {
    "mkstemp": {-1, "NEG"}, "open": {-1, "NEG"}, "ftruncate": {"NEG", -1}, "mmap": {"MAP_FAILED"},
    "malloc": {"NULL"}, "orc_code_region_alloc": {"NULL"}, "orc_code_region_new": {"NULL"},
    "orc_code_region_get_free_chunk": {"NULL"}, "realloc": {"NULL"},
    # these return an error NUMBER (0 on success, a positive errno on failure), never -1
    "posix_fallocate": {"NONZERO"}, "posix_memalign": {"NONZERO"}, "pthread_mutex_init": {"NONZERO"},
}


def first_test_of(func, call, var):
    """the first branch condition after `call` that mentions var."""
    pos = func.pos(call)
    if pos is None:
        return None
    seen = set()
    st = [pos[0]]
    while st:
        b = st.pop(0)
        if b in seen:
            continue
        seen.add(b)
        blk = func.blocks[b]
        if blk.cond is not None and (b != pos[0] or func.pos(blk.cond) is None or func.pos(blk.cond) >= pos):
            if var in {access_path(x) for x in blk.cond.walk() if x.k in ("DeclRefExpr", "MemberExpr")}:
                return blk
        st.extend(s for s in blk.succs if s is not None)
    return None


def run(ctx):
    db = ctx.db()
    rep = ctx.report
    rep.explanation = (
        "Structural conditions of the fallback machinery decided on every CFG path: file descriptor, file name and first mapping "
        "of the dual-map allocator are released on each failure exit (typestate with failed-acquisition edges pruned); each "
        "acquisition's result is first compared with its own failure sentinel (mkstemp -1, ftruncate <0, mmap MAP_FAILED, "
        "allocator NULL); the chain returns failure only after all five methods; the init probe sets both fallback flags whenever "
        "the probe region is NULL; orc_executor_run/_run_backup call exactly one of func/emulate exactly once on every path. "
        "Equality of results on the fallback paths is NOT decided.")
    rep.assumptions += ["HAVE_CODEMEM_MMAP configuration of this build", "realloc/malloc failure (OOM) exits are reported as information only"]
    tu = db.tu("orccodemem")

    dual_map_pairing(db, rep)
    # sentinels
    for f in tu.main_functions():
        for c in f.calls():
            if c.name not in SENT or c.name in ("malloc", "realloc"):
                continue
            var, st = assigned_var(c)
            if var is None:
                continue
            rep.saw(f)
            blk = first_test_of(f, c, var)
            if blk is None:
                rep.violation("D2-R-SENT", where(f), "%s->%s" % (c.name, var), "result of %s() is never tested" % c.name, line=c.line)
                continue
            # the test must classify the sentinel as failure on one edge
            okc = failure_edge(blk.cond, True, var, SENT[c.name]) or failure_edge(blk.cond, False, var, SENT[c.name])
            rep.check(okc, "D2-R-SENT", where(f), "%s->%s" % (c.name, var),
                      "first test `%s` compares with the failure sentinel of %s()" % (unparse(blk.cond), c.name),
                      "result of %s() is first tested by `%s`, which does not compare it with %s" % (c.name, unparse(blk.cond), sorted(map(str, SENT[c.name]))),
                      line=blk.cond.line)
    rep.floor("D2-R-SENT", 6)

    # region struct freed when mapping fails
    ra = db.func("orc_code_region_alloc", "orccodemem")
    rep.saw(ra)
    for c in ra.calls("orc_malloc"):
        var, st = assigned_var(c)
        rel = lambda e, v=var: call_with_arg(e, ("free",), v)
        ok_exit = lambda r, v=var: r.c and access_path(r.c[0]) == v
        paths = live_exit_paths(ra, c, var, set(), rel, ok_exit)
        rep.check(not paths, "D1-R-PAIR", where(ra), "orc_malloc->%s" % var, "region struct freed when no mapping could be made, returned otherwise",
                  "region struct leaks on: %s" % (describe_path(ra, paths[0]) if paths else ""), line=c.line)

    # ---- D3 chain ------------------------------------------------------------
    ch = db.func("orc_code_region_allocate_codemem", "orccodemem")
    rep.saw(ch)
    fc = Facts(ch)
    attempts = [c for c in ch.calls() if c.name in ("orc_code_region_allocate_codemem_dual_map", "orc_code_region_allocate_codemem_anon_map")]
    if len(attempts) < 5:
        rep.violation("D3-CHAIN", where(ch), "attempts", "only %d acquisition attempts remain in the chain (5 expected: XDG_RUNTIME_DIR, HOME, TMPDIR, /tmp, anonymous)" % len(attempts))
    fails = [r for r in ch.walk() if r.k == "ReturnStmt" and r.c and strip_casts(r.c[0]).v == 0]
    if not fails:
        raise AnalysisBroken("no failure return in orc_code_region_allocate_codemem")
    uncond = [a for a in attempts if a.name.endswith("anon_map") or any(x.k == "StringLiteral" for x in a.walk())]
    for r in fails:
        conds = fc.conds(r)
        failed_calls = {c[0].id for c in conds if c[0] != "switch" and c[0].k == "CallExpr" and not c[1]}
        ok = all(a.id in failed_calls for a in uncond) and all(ch.dominates(a, r) or True for a in attempts)
        # conditional attempts (getenv) must at least precede the failure return on the path where the variable is set
        rep.check(ok and len(uncond) >= 2, "D3-CHAIN", where(ch), "return-FALSE",
                  "failure is returned only after the /tmp and anonymous attempts failed (and the getenv-guarded ones were tried first)",
                  "failure return is reachable although not every unconditional attempt has failed", line=r.line)
    order = [unparse(a.args()[1]) if len(a.args()) > 1 else "anon" for a in sorted(attempts, key=lambda x: (x.line, x.id))]
    rep.ok("D3-CHAIN", where(ch), "order", "attempt order: %s" % order)
    # getenv result NULL-tested before use as directory
    for a in attempts:
        for arg in a.args()[1:2]:
            p = access_path(arg)
            if p and strip_casts(arg).k == "DeclRefExpr":
                ok = any(c[0] != "switch" and access_path(c[0]) == p and c[1] for c in fc.conds(a))
                rep.check(ok, "D3-CHAIN", where(ch), "getenv-null-test@L%d" % 0 + unparse(arg), "directory variable tested non-NULL before use",
                          "getenv result `%s` passed to the allocator without a NULL test" % p, line=a.line)

    # ---- D4 init probe -----------------------------------------------------------
    ci = db.func("_orc_compiler_init", "orccompiler")
    rep.saw(ci)
    probes = [c for c in ci.calls("orc_code_region_alloc")]
    if not probes:
        rep.info("_orc_compiler_init no longer probes for executable memory")
    for c in probes:
        var, st = assigned_var(c)
        for flag in ("_orc_compiler_flag_backup", "_orc_compiler_flag_emulate"):
            def is_set(e, fl=flag):
                return e.k == "BinaryOperator" and e.op == "=" and access_path(e.c[0]) == fl and strip_casts(e.c[1]).v not in (None, 0)
            # follow only paths on which the probe FAILED (success edges pruned),
            # tracking constants held by boolean locals so that correlated tests
            # such as `if (!can_jit)` are followed precisely
            from pairing import success_edge
            witness = None
            seen = set()
            st_ = [(ci.entry, (), False, False, (ci.entry,))]
            steps = 0
            while st_ and witness is None:
                b, envt, after, done, path = st_.pop()
                steps += 1
                if steps > 200000:
                    raise AnalysisBroken("path explosion in _orc_compiler_init")
                env = dict(envt)
                blk = ci.blocks[b]
                for e in blk.el:
                    if e is c:
                        after = True
                    if after and is_set(e):
                        done = True
                    if e.k == "VarDecl" and e.c and e.c[0] is not None:
                        v = strip_casts(e.c[0]).v
                        if v is not None:
                            env[e.name] = v
                        else:
                            env.pop(e.name, None)
                    elif e.k == "BinaryOperator" and e.op == "=":
                        l = strip_casts(e.c[0])
                        if l is not None and l.k == "DeclRefExpr" and l.get("dk") == "local":
                            v = strip_casts(e.c[1]).v
                            if v is not None:
                                env[l.name] = v
                            else:
                                env.pop(l.name, None)
                if b == ci.exit:
                    if after and not done:
                        witness = path
                    continue
                for idx, s_ in enumerate(blk.succs):
                    if s_ is None:
                        continue
                    ek = ci.edge_kind(b, idx)
                    if blk.cond is not None and ek in (True, False):
                        if after and success_edge(blk.cond, ek, var, {"NULL"}):
                            continue
                        cn, pol = atom(blk.cond, ek)
                        if cn is not None and cn.k == "DeclRefExpr" and cn.name in env:
                            if bool(env[cn.name]) != pol:
                                continue
                    key = (s_, tuple(sorted(env.items())), after, done)
                    if key in seen:
                        continue
                    seen.add(key)
                    st_.append((s_, tuple(sorted(env.items())), after, done, path + (s_,)))
            rep.check(witness is None, "D4-INIT-PROBE", where(ci), "%s-forced-when-probe-fails" % flag,
                      "%s is set on every path on which the probe mapping is NULL" % flag,
                      "when orc_code_region_alloc() returns NULL, init can finish without setting %s: later compiles would try to JIT without executable memory (%s)" %
                      (flag, describe_path(ci, list(witness)) if witness else ""), line=c.line)

    # ---- D5 dispatch ------------------------------------------------------------
    for fn in ("orc_executor_run", "orc_executor_run_backup"):
        f = db.func(fn, "orcexecutor")
        rep.saw(f)

        def is_dispatch(e):
            if e.k != "CallExpr":
                return False
            if e.name == "orc_executor_emulate":
                return True
            cal = strip_casts(e.c[0])
            return e.name is None and cal is not None and cal.k == "DeclRefExpr" and cal.get("dk") == "local"
        # enumerate paths (acyclic function): count dispatch calls per path
        counts = set()
        st_ = [(f.entry, 0, ())]
        steps = 0
        while st_:
            b, cnt, path = st_.pop()
            steps += 1
            if steps > 5000:
                raise AnalysisBroken("path explosion in " + fn)
            blk = f.blocks[b]
            cnt += sum(1 for e in blk.el if is_dispatch(e))
            if b == f.exit:
                counts.add(cnt)
                continue
            for s in blk.succs:
                if s is not None and s not in path:
                    st_.append((s, cnt, path + (b,)))
        rep.check(counts == {1}, "D5-DISPATCH-ONCE", where(f), "calls-per-path",
                  "every path calls exactly one of func(ex) / orc_executor_emulate(ex), once",
                  "some path through %s makes %s implementation calls" % (fn, sorted(counts)))
        # NULL program: code taken from arrays[ORC_VAR_A2]
        a2 = db.enum("ORC_VAR_A2")
        ok = False
        for n in f.walk():
            if n.k == "ArraySubscriptExpr" and (access_path(n.c[0]) or "").endswith("->arrays") and n.c[1].v == a2:
                conds = Facts(f).conds(n)
                ok = any(c[0] != "switch" and (access_path(c[0]) or "").endswith("->program") and not c[1] for c in conds)
        rep.check(ok, "D5-DISPATCH-ONCE", where(f), "code-only-executor",
                  "with ex->program == NULL the code object comes from arrays[ORC_VAR_A2]",
                  "%s no longer takes the code object from arrays[ORC_VAR_A2] on the program-less path" % fn)

    # ---- D5b: emulation takes the code object from the place that is current ----------------------
    # With an attached program the code object is program->orccode (rewritten by every compile); the A2 slot is only a
    # snapshot from orc_executor_set_program and is authoritative for code-only executors (ex->program == NULL) alone.
    ee = db.func("orc_executor_emulate", "orcexecutor")
    rep.saw(ee)
    fce = Facts(ee)
    a2v = db.enum("ORC_VAR_A2")
    EX = ee.params[0]["name"]
    defs = []
    for n in ee.walk():
        if n.k == "BinaryOperator" and n.op == "=" and strip_casts(n.c[0]).k == "DeclRefExpr" and (strip_casts(n.c[0]).get("ty") or "").replace(" ", "") == "OrcCode*":
            defs.append((n, n.c[1]))
        elif n.k == "VarDecl" and (n.get("ty") or "").replace(" ", "") == "OrcCode*" and n.c and n.c[0] is not None:
            defs.append((n, n.c[0]))
    if not defs:
        raise AnalysisBroken("orc_executor_emulate: no definition of the code object found")
    for st, rhs in defs:
        r_ = strip_casts(rhs)
        conds = [(access_path(x[0]), x[1]) for x in fce.conds(st) if x[0] != "switch"]
        from_slot = any(y.k == "ArraySubscriptExpr" and (access_path(y.c[0]) or "").endswith("->arrays") and strip_casts(y.c[1]).v == a2v for y in r_.walk())
        from_prog = (access_path(r_) or "").endswith("->program->orccode")
        if from_slot:
            ok = ("%s->program" % EX, False) in conds
            why = "the A2 snapshot is used although a program may be attached (its orccode is the current one; A2 may be NULL or stale after a recompile)"
        elif from_prog:
            ok = ("%s->program" % EX, True) in conds
            why = "ex->program->orccode is read without ex->program being known non-NULL"
        else:
            ok, why = False, "the code object comes from `%s`" % unparse(r_)[:50]
        rep.check(ok, "D5-DISPATCH-ONCE", where(ee), "emulate:code-source:%s" % ("A2" if from_slot else "program" if from_prog else "other"),
                  "emulation reads the code object from %s under the matching program test" % ("arrays[A2]" if from_slot else "program->orccode"),
                  "orc_executor_emulate: %s" % why, line=st.line)

    # ---- D6: the fallback installed by the compile driver is a real function ---------------------
    from rules_common import check_code_exec_nonnull
    check_code_exec_nonnull(db, rep, "D6-FALLBACK-NONNULL")

    d7_error_latch(db, rep)
    snapshot_slots(db, rep, "D5c-SNAPSHOT-SLOTS")
    d9_acc_index(db, rep)
    d10_temp_reg_distinct(db, rep)
    d11_exec_only_if_executable(db, rep)
    d12_gp_alloc_checked(db, rep)
    compiler_var_scans_complete(db, rep, "D14-VAR-SCAN-COMPLETE")
    # D15: "no rule for an opcode on the target" must be FOUND OUT: a rule is taken from a rule set only if that set belongs to the
    # opcode's own opcode set, otherwise an opcode without a rule is compiled with the rule of another opcode (shared with C20 D2)
    import importlib as _il15
    _il15.import_module("rules.c20").d2(db, rep, "D15-RULE-OF-OWN-SET")
    d16_spilled_pointer_row_step(db, rep)
    # D13: "no failure of the operating system to provide ... an executable mapping crashes the process": the allocator's failure
    # exits release the global mutex (rule shared with C08 D2)
    import importlib as _il13
    _il13.import_module("rules.c08").lock_released_on_every_exit(db, rep, "D13-FAILURE-EXIT-UNLOCKED", "orccodemem")
    # D8: the executor a generated wrapper hands to a detached code object carries n and (for 2-D) m: emulation, the fallback
    # of every wrapper, reads them from there (shared with C07 D1)
    import importlib as _il
    _il.import_module("rules.c07").wrapper_executor_fill(db, rep, "D8-WRAPPER-FILL")



def dual_map_pairing(db, rep, rule="D1-R-PAIR"):
    """descriptor, file name and first mapping of the dual-map allocator are released on every exit where they are live
    (shared with C16: these are resources of the object life cycle as well)"""
    dm = db.func("orc_code_region_allocate_codemem_dual_map", "orccodemem")
    rep.saw(dm)
    acq = []
    for c in dm.calls():
        if c.name in ("malloc", "mkstemp", "mmap"):
            var, st = assigned_var(c)
            if var:
                acq.append((c, var))
    if len(acq) < 4:
        raise AnalysisBroken("dual_map: expected malloc+mkstemp+2 mmap acquisitions, found %d" % len(acq))
    for c, var in acq:
        sent = SENT[c.name]
        if c.name == "malloc":
            rel = lambda e, v=var: call_with_arg(e, ("free",), v)
            ok_exit = None
        elif c.name == "mkstemp":
            rel = lambda e, v=var: call_with_arg(e, ("close",), v)
            ok_exit = None
        else:
            rel = lambda e, v=var: call_with_arg(e, ("munmap",), v)
            # mapping stays owned by the region on the success exit
            ok_exit = lambda r: r.c and strip_casts(r.c[0]).v not in (None, 0)
        paths = live_exit_paths(dm, c, var, sent, rel, ok_exit)
        rep.check(not paths, rule, where(dm), "%s->%s" % (c.name, var),
                  "released on every exit where it is live (%s)" % ("free" if c.name == "malloc" else "close" if c.name == "mkstemp" else "munmap or kept by region on success"),
                  "%s acquired by %s() is still live at an exit: %s" % (var, c.name, describe_path(dm, paths[0]) if paths else ""), line=c.line)


def d7_error_latch(db, rep):
    """D7: the compile-error flag is a latch.  The only legitimate clearing store undoes an error raised by the operation just
    attempted, so it must sit where the flag is known to have been clear before that operation: a must-fact `!X->error`
    (from a dominating branch, not killed by any store to the flag) holds at the store.  Otherwise an earlier failure -
    register overflow, missing rule - is wiped and compilation carries on with a half-allocated program instead of
    falling back to emulation."""
    from flow import Facts
    from exprval import key_of
    n = 0
    for f in db.all_functions():
        if not f.relfile.startswith("orc/"):
            continue
        stores = []
        for x in f.walk():
            if x.k == "BinaryOperator" and x.op == "=":
                l = strip_casts(x.c[0])
                if l is not None and l.k == "MemberExpr" and l.name == "error" and "OrcCompiler" in ((l.c[0].ty if l.c else "") or "") \
                        and strip_casts(x.c[1]) is not None and strip_casts(x.c[1]).v == 0:
                    stores.append((x, key_of(l)))
        if not stores:
            continue
        rep.saw(f)
        fc = Facts(f)
        for x, key in stores:
            n += 1
            held = [c for c in fc.conds(x) if c[0] != "switch" and c[1] is False and key_of(c[0]) == key]
            rep.check(bool(held), "D7-ERROR-LATCH", where(f), "clear:%s@%s" % (key, f.name),
                      "the store clearing %s is reached only where the flag was tested clear before the tolerated operation (line %s)" % (key, held[0][0].line if held else "?"),
                      "%s clears %s at a point where the flag may already have been set by an earlier failure: that failure is lost, "
                      "compilation continues and native code built from unallocated registers is installed instead of the emulation fallback" % (f.name, key),
                      line=x.line)
    if n < 1:
        raise AnalysisBroken("no store clearing OrcCompiler.error found (the loop-counter tolerance in orc_compiler_global_reg_alloc is the reference instance)")


def snapshot_slots(db, rep, rule):
    """orc_executor_set_program copies the program's entry point and code object into arrays[A1] / arrays[A2].  Those copies
    go stale when the program is recompiled or reset (the old chunk is released), so library code may read them only where
    no program is attached (`ex->program == NULL`, code-only executors); with a program attached the live
    program->code_exec / program->orccode is the only valid source."""
    a1, a2 = db.enum("ORC_VAR_A1"), db.enum("ORC_VAR_A2")
    n = 0
    for f in db.tu("orcexecutor").main_functions():
        reads = []
        for x in f.walk():
            if x.k == "ArraySubscriptExpr" and (access_path(x.c[0]) or "").endswith("->arrays") and strip_casts(x.c[1]) is not None and strip_casts(x.c[1]).v in (a1, a2):
                p = x.parent
                while p is not None and p.k in ("ParenExpr", "CStyleCastExpr", "ImplicitCastExpr"):
                    p = p.parent
                if p is not None and p.k == "BinaryOperator" and p.op == "=" and any(y is x for y in p.c[0].walk()):
                    continue
                reads.append(x)
        if not reads:
            continue
        rep.saw(f)
        fc = Facts(f)
        for x in reads:
            n += 1
            base = access_path(x.c[0])[:-len("->arrays")]
            conds = [(access_path(c[0]), c[1]) for c in fc.conds(x) if c[0] != "switch"]
            slot = "A1" if strip_casts(x.c[1]).v == a1 else "A2"
            rep.check((base + "->program", False) in conds, rule, where(f), "read:arrays[%s]@%s" % (slot, f.name),
                      "the %s snapshot is read only where %s->program is known to be NULL" % (slot, base),
                      "%s reads the snapshot %s->arrays[ORC_VAR_%s] on a path where a program may be attached: after that program is recompiled or reset "
                      "the copy points into a released code chunk (use after free; another program's code may have been placed there)" % (f.name, base, slot),
                      line=x.line)
    if n < 2:
        raise AnalysisBroken("only %d reads of the A1/A2 snapshot slots found in orcexecutor.c" % n)


def d9_acc_index(db, rep):
    """D9: ex->accumulators[] has one entry per accumulator variable, numbered from 0, while accumulators are variables
    ORC_VAR_A1 .. A4.  Every run-time subscript of that array must therefore be a variable number minus ORC_VAR_A1
    (sibling agreement between the accessors and the emulator); the raw variable number reads far past the array."""
    from flow import linear
    a1 = db.enum("ORC_VAR_A1")
    n = 0
    for f in db.tu("orcexecutor").main_functions():
        for x in f.walk():
            if x.k == "ArraySubscriptExpr" and (access_path(x.c[0]) or "").endswith("->accumulators") and strip_casts(x.c[1]).v is None:
                l = linear(x.c[1])
                n += 1
                rep.saw(f)
                rep.check(l is not None and l[0] is not None and l[1] == -a1, "D9-ACC-INDEX", where(f), "accumulators[%s]" % unparse(x.c[1])[:40],
                          "subscript is a variable number minus ORC_VAR_A1",
                          "%s indexes ex->accumulators[] with `%s`, not with <variable number> - ORC_VAR_A1: for an accumulator variable (number %d and up) that "
                          "is outside the %d-entry array" % (f.name, unparse(x.c[1])[:50], a1, db.field("OrcExecutor", "accumulators")["alen"]), line=x.line)
    if n < 3:
        raise AnalysisBroken("only %d run-time subscripts of ex->accumulators[] found" % n)


def d10_temp_reg_distinct(db, rep):
    """D10: "register exhaustion" must be REPORTED (compile error -> fallback), not papered over.  orc_compiler_get_temp_reg
    hands out scratch registers for the rule of the current instruction; registers already handed out for that instruction
    are excluded only through the cursor compiler->min_temp_reg (they are not entered in alloc_regs[]).  Every path that
    returns a register r must therefore have moved the cursor past r (min_temp_reg = r + k, k >= 1) or marked alloc_regs[r];
    a return without either can hand the same register out twice, the rule computes with one register where it needs two,
    and the compile still reports success."""
    from flow import linear
    tu = db.tu("orccompiler")
    f = tu.fn.get("orc_compiler_get_temp_reg")
    if f is None:
        raise AnalysisBroken("orc_compiler_get_temp_reg not found")
    rep.saw(f)
    rets = [r for r in f.walk() if r.k == "ReturnStmt" and r.c and r.c[0] is not None and strip_casts(r.c[0]).v is None]
    if not rets:
        raise AnalysisBroken("orc_compiler_get_temp_reg returns no register variable")
    for r in rets:
        rv = access_path(strip_casts(r.c[0]))
        ok = False
        for x in f.walk():
            if x.k == "BinaryOperator" and x.op == "=" and (access_path(x.c[0]) or "").endswith("->min_temp_reg"):
                l = linear(x.c[1])
                if l and l[0] == rv and l[1] >= 1 and f.dominates(x, r):
                    ok = True
            if x.k == "BinaryOperator" and x.op == "=" and strip_casts(x.c[0]) is not None and strip_casts(x.c[0]).k == "ArraySubscriptExpr" \
                    and (access_path(strip_casts(x.c[0]).c[0]) or "").endswith("->alloc_regs") and access_path(strip_casts(strip_casts(x.c[0]).c[1])) == rv \
                    and strip_casts(x.c[1]).v not in (0, None) and f.dominates(x, r):
                ok = True
        rep.check(ok, "D10-TEMP-REG-DISTINCT", where(f), "return %s@%s" % (rv, r.line),
                  "the register returned has been excluded from later requests (cursor moved past it)",
                  "orc_compiler_get_temp_reg can return register `%s` (line %s) without moving compiler->min_temp_reg past it or marking it allocated: the "
                  "next request within the same instruction can return the same register - with one register free a rule that needs two temporaries gets "
                  "the same one twice, the compile succeeds and the code computes garbage instead of falling back" % (rv, r.line), line=r.line)


def d11_exec_only_if_executable(db, rep, rule="D11-EXEC-ONLY-IF-EXECUTABLE"):
    """D11: "whenever native code is not used ... still produces exactly the emulation results".  Native code cannot be used
    when the target it was generated for is not executable on this machine (another architecture's back end, the C back ends,
    an x86 level the CPU lacks): orc_compiler_compile_program may point program->code_exec at the generated code only where
    compiler->target->executable is known to be set, and on every other path to the success return the code object's own
    entry (orccode->exec, what a code-only executor calls) must have been replaced by the fallback."""
    from flow import path_to
    f = db.func("orc_compiler_compile_program", "orccompiler")
    rep.saw(f)
    fc = Facts(f)
    installs = [x for x in f.walk() if x.k == "BinaryOperator" and x.op == "=" and (access_path(x.c[0]) or "").endswith("program->code_exec")
                and (access_path(strip_casts(x.c[1])) or "").endswith("orccode->exec")]
    if not installs:
        raise AnalysisBroken("orc_compiler_compile_program: installation of the generated code as code_exec not found")
    for x in installs:
        conds = [(access_path(c[0]), c[1]) for c in fc.conds(x) if c[0] != "switch"]
        ok = any((p or "").endswith("target->executable") and pol for p, pol in conds)
        rep.check(ok, rule, where(f), "code_exec=orccode->exec@%s" % x.line,
                  "the generated code becomes code_exec only where target->executable is set",
                  "orc_compiler_compile_program installs the generated code as program->code_exec without knowing that the target is executable on this "
                  "machine: orc_program_compile_for_target (p, neon / c / an x86 level the CPU lacks) returns OK and orc_executor_run jumps into foreign or "
                  "empty code instead of emulating", line=x.line)
    # the detached entry: on the success return, either executable is known or orccode->exec was redirected
    rets = [r for r in f.walk() if r.k == "ReturnStmt" and r.c and strip_casts(r.c[0]) is not None and strip_casts(r.c[0]).v is None and any(f.dominates(i_, r) or True for i_ in installs)]
    succ = [r for r in rets if any(fc_line(f, i_, r) for i_ in installs)]
    redirect = lambda e: e.k == "BinaryOperator" and e.op == "=" and (access_path(e.c[0]) or "").endswith("orccode->exec") and \
        ((access_path(strip_casts(e.c[1])) or "").endswith("code_exec") or "orc_executor_emulate" in unparse(e.c[1]))
    alloc = [c for c in f.calls("orc_code_allocate_codemem")]
    if not alloc:
        raise AnalysisBroken("orc_compiler_compile_program: orc_code_allocate_codemem call not found")
    from collections import deque
    stops = {i_.id for i_ in installs}
    for r in succ:
        bad = False
        ap = f.pos(alloc[-1])
        seen = set()
        dq = deque([(ap[0], ap[1] + 1)])
        while dq and not bad:
            b, i0 = dq.popleft()
            if (b, i0 > 0) in seen:
                continue
            seen.add((b, i0 > 0))
            blk = f.blocks[b]
            stop = False
            for e in blk.el[i0:]:
                if redirect(e) or e.id in stops:
                    stop = True
                    break
                if e.id == r.id:
                    bad = True
                    break
            if stop or bad or blk.noreturn:
                continue
            dq.extend((s_, 0) for s_ in blk.succs if s_ is not None)
        rep.check(not bad, rule, where(f), "orccode->exec@return:%s" % r.line,
                  "after the code memory is allocated, every path to the success return either installs the code under target->executable or redirects "
                  "orccode->exec to the fallback",
                  "orc_compiler_compile_program can reach its success return (line %s) with orccode->exec still pointing at code of a non-executable target: "
                  "a code-only executor calls it" % r.line, line=r.line)


def fc_line(f, a, b):
    """b is reachable after a in program order (a's block can reach b's)"""
    pa, pb = f.pos(a), f.pos(b)
    if pa is None or pb is None:
        return False
    seen, st = set(), [pa[0]]
    while st:
        x = st.pop()
        if x in seen:
            continue
        seen.add(x)
        if x == pb[0]:
            return True
        st.extend(s_ for s_ in f.blocks[x].succs if s_ is not None)
    return False


def d12_gp_alloc_checked(db, rep, rule="D12-GP-ALLOC-CHECKED"):
    """D12: "register exhaustion ... still produces exactly the emulation results".  orc_compiler_allocate_register reports a
    failed VECTOR allocation itself, but returns 0 silently for a general register when the target allows pointers to stay in
    the executor (allow_gp_on_stack).  Only array pointers have that fallback - the rules test `ptr_register == 0`.  Every
    other field that receives the result of a general-register allocation is used as a register operand, so the 0 must be
    turned into a compile error where it is stored; otherwise the compile succeeds and the code uses register 0."""
    n = 0
    for f in db.tu("orccompiler").main_functions():
        fc = None
        for x in f.walk():
            if x.k != "BinaryOperator" or x.op != "=":
                continue
            r = strip_casts(x.c[1])
            if r is None or r.k != "CallExpr" or r.name != "orc_compiler_allocate_register" or len(r.args()) < 2 or strip_casts(r.args()[1]).v != 0:
                continue
            lp = access_path(x.c[0]) or unparse(x.c[0])
            fld = lp.split("->")[-1].split(".")[-1]
            n += 1
            rep.saw(f)
            if fld == "ptr_register":
                rep.ok(rule, where(f), "%s@%s" % (lp, x.line), "array pointer: the rules fall back to the executor's copy when it is 0")
                continue
            # an error raised under `field == 0` somewhere after the store
            fc = fc or Facts(f)
            handled = False
            for c in f.calls():
                if c.name in ("orc_compiler_error",) and c.line >= x.line:
                    conds = fc.conds(c)
                    if any(cc[0] != "switch" and access_path(strip_casts(cc[0])) == lp and cc[1] is False for cc in conds):
                        handled = True
            # ... or the zero value is an explicit state of the field that this function itself distinguishes (loop_counter ==
            # ORC_REG_INVALID: the x86 skeleton then counts in memory)
            from flow import atom
            for blk in f.blocks.values():
                if blk.cond is not None and blk.cond.line >= x.line:
                    cn, _ = atom(blk.cond, True)
                    if cn is not None and access_path(cn) == lp:
                        handled = True
                    if cn is not None and cn.k == "BinaryOperator" and cn.op in ("==", "!=") and access_path(strip_casts(cn.c[0])) == lp and strip_casts(cn.c[1]).v == 0:
                        handled = True
            guarded_mode = any(cc[0] != "switch" and (access_path(strip_casts(cc[0])) or "").endswith("allow_gp_on_stack") and cc[1] is False for cc in fc.conds(x))
            rep.check(handled or guarded_mode, rule, where(f), "%s@%s" % (lp, x.line),
                      "a failed allocation of `%s` becomes a compile error" % lp,
                      "%s stores the result of a general-register allocation in `%s` without turning 0 (no register left, allow_gp_on_stack) into a compile "
                      "error: the rules use that field as a register operand, the compile reports success and the generated code operates on register 0 "
                      "(rax, which holds another pointer) instead of falling back to emulation" % (f.name, lp), line=x.line)
    if n < 3:
        raise AnalysisBroken("only %d general-register allocations found in orccompiler.c" % n)
    return n


def compiler_var_scans_complete(db, rep, rule):
    """The compiler's variable table (OrcCompiler.vars, ORC_N_COMPILER_VARIABLES entries) holds the program's variables AND the
    temporaries the compiler adds (duplicates, loaded parameters: numbers 64 and up in a program with 16 temporaries).  A pass
    that scans "all variables" - liveness for scratch registers, register allocation, clean-up - must reach the end of that
    table; stopping at ORC_N_VARIABLES, the size of the PROGRAM's table, makes the added temporaries invisible: a live value's
    register is handed out as scratch and the JIT code miscomputes without any error.  Every counted loop from 0 over
    compiler->vars[] that has an effect (more than logging) must end at the capacity, or at the last variable of a class
    (ORC_VAR_D4, S8, A4, C8, P8, T16: deliberate class walks)."""
    from loops import counted
    tu = db.tu("orccompiler")
    cap = db.field("OrcCompiler", "vars")["alen"]
    ends = {v for k, v in tu.enums.items() if k in ("ORC_VAR_D4", "ORC_VAR_S8", "ORC_VAR_A4", "ORC_VAR_C8", "ORC_VAR_P8", "ORC_VAR_T16")}
    n = 0
    for f in db.all_functions():
        if not f.relfile.startswith("orc/") or f.body is None:
            continue
        for lp in [x for x in f.walk() if x.k == "ForStmt"]:
            cl = counted(lp)
            if not cl or cl["dir"] != "asc" or cl["first"] != (None, 0) or cl["last"][0] is not None:
                continue
            body = lp.c[3]
            if body is None:
                continue
            idx = [x for x in body.walk() if x.k == "ArraySubscriptExpr" and (access_path(x.c[0]) or "") == "compiler->vars"
                   and strip_casts(x.c[1]) is not None and strip_casts(x.c[1]).k == "DeclRefExpr" and strip_casts(x.c[1]).name == cl["var"]]
            if not idx:
                continue
            # effect: an assignment, ++/--, or a call that is not a debug print
            eff = any((y.k in ("BinaryOperator", "CompoundAssignOperator") and y.op.endswith("=") and y.op not in ("==", "!=", "<=", ">=")) or
                      (y.k == "UnaryOperator" and y.op in ("++", "--")) or
                      (y.k == "CallExpr" and (y.name or "") not in ("orc_debug_print", "orc_debug_get_level")) or y.k in ("ReturnStmt",)
                      for y in body.walk())
            if not eff:
                continue
            n += 1
            rep.saw(f)
            last = cl["last"][1]
            rep.check(last == cap - 1 or last in ends, rule, where(f), "%s:vars[%s]@%s" % (f.name, cl["var"], lp.line),
                      "the scan over compiler->vars[] ends at %d (%s)" % (last, "the table's capacity" if last == cap - 1 else "the last variable of a class"),
                      "%s scans compiler->vars[] from 0 to %d, but the table has %d entries: the temporaries the compiler adds beyond the program's own "
                      "variables (numbers %d and up) are not seen by this pass - a live one keeps its register out of the scan, the register is handed out as "
                      "scratch and the generated code overwrites a live value" % (f.name, last, cap, last + 1), line=lp.line)
    if n < 8:
        raise AnalysisBroken("only %d effectful scans of compiler->vars[] found" % n)
    return n


def d16_spilled_pointer_row_step(db, rep, rule="D16-SPILLED-POINTER-ROW-STEP"):
    """Register exhaustion, x86: an array pointer that got no general register lives in ex->arrays[i] and the inner loop advances
    it THERE (orc_x86_emit_loop, the arm without ptr_register), while a pointer with a register is advanced in the register and
    ex->arrays[i] keeps the start of the row.  The row step of 2-D programs (orc_x86_add_strides: arrays[i] += stride) is right
    only for the second kind; for a pointer kept in memory it adds the stride to a pointer that already stands at the end of the
    row.  As long as the inner loop has that memory arm, the row step must tell the two cases apart (today: refuse the
    program, which then runs emulated) - a row step that does not look at ptr_register at all steps spilled pointers wrongly and
    every row after the first differs from emulation."""
    tu = db.tu("orcprogram-x86")
    lp = tu.fn.get("orc_x86_emit_loop")
    st = tu.fn.get("orc_x86_add_strides")
    if lp is None or st is None:
        raise AnalysisBroken("orc_x86_emit_loop / orc_x86_add_strides not found")
    rep.saw(st)
    mem_arm = [c for c in lp.calls() if c.name and "memoffset" in c.name and any("arrays" in (z.get("opath") or "") for x in c.args() for z in x.walk() if z.k == "OffsetOfExpr")]
    if not mem_arm:
        raise AnalysisBroken("orc_x86_emit_loop: the arm that advances ex->arrays[k] in memory was not found (premise of the rule)")
    row = [c for c in st.calls() if c.name and "memoffset" in c.name and any("arrays" in (z.get("opath") or "") for x in c.args() for z in x.walk() if z.k == "OffsetOfExpr")]
    if not row:
        raise AnalysisBroken("orc_x86_add_strides: the add to ex->arrays[i] was not found")
    tests = [b for b in st.blocks.values() if b.cond is not None and "ptr_register" in unparse(b.cond)]
    rep.check(bool(tests), rule, where(st), "orc_x86_add_strides", "the row step distinguishes pointers kept in memory from pointers kept in a register",
              "orc_x86_add_strides adds the stride to ex->arrays[i] for every array and never looks at vars[i].ptr_register, while orc_x86_emit_loop "
              "advances a pointer without register in ex->arrays[i] itself (line %s): for such a pointer the stride is added to the END of the row - a 2-D "
              "program that runs out of general registers is compiled instead of emulated and every row after the first is wrong" % mem_arm[0].line,
              line=row[0].line)
    return 1


def accumulator_walks_complete(db, rep, rule):
    """An accumulator's register is zeroed before the loops (init_accumulator) and reduced and stored after them
    (reduce_accumulator); the back ends find the accumulators by walking the variable table.  Every counted loop whose body
    picks out accumulators - it compares a variable's vartype with ORC_VAR_TYPE_ACCUMULATOR, or calls an *accumulator* hook - must
    cover all four accumulator slots (ORC_VAR_A1 .. ORC_VAR_A4 inclusive): a walk that stops one short never zeroes (or never
    stores) the fourth accumulator, whose value then starts from whatever the register held before the call."""
    from loops import counted
    a1, a4 = db.enum("ORC_VAR_A1"), db.enum("ORC_VAR_A4")
    accty = db.enum("ORC_VAR_TYPE_ACCUMULATOR")
    n = 0
    for f in db.all_functions():
        if not f.relfile.startswith("orc/") or f.body is None or "emulate" in f.name:
            continue
        for lp in [x for x in f.walk() if x.k == "ForStmt"]:
            cl = counted(lp)
            if not cl or cl["first"][0] is not None or cl["last"][0] is not None or cl["first"][1] is None or cl["last"][1] is None:
                continue
            body = lp.c[3] if len(lp.c) > 3 else None
            if body is None:
                continue
            picks = any(y.k == "BinaryOperator" and y.op in ("==", "!=") and "vartype" in unparse(y) and strip_casts(y.c[1]) is not None and strip_casts(y.c[1]).v == accty
                        for y in body.walk()) or \
                any(y.k == "CallExpr" and "accumulator" in (y.name or unparse(y.c[0]) if y.c else "") for y in body.walk()) or \
                any(y.k == "MemberExpr" and "accumulator" in (y.name or "") and y.parent is not None and y.parent.k in ("CallExpr", "ImplicitCastExpr") for y in body.walk())
            if not picks:
                continue
            iv = cl["var"]
            # the loop variable indexes the variable table itself (vars[i] / vars + i) - not an operand slot (dest_args[k])
            indexes_table = any((y.k == "ArraySubscriptExpr" and (access_path(y.c[0]) or "").endswith("vars") and strip_casts(y.c[1]) is not None and
                                 strip_casts(y.c[1]).k == "DeclRefExpr" and strip_casts(y.c[1]).name == iv) or
                                (y.k == "BinaryOperator" and y.op == "+" and (access_path(y.c[0]) or "").endswith("vars") and strip_casts(y.c[1]) is not None and
                                 strip_casts(y.c[1]).k == "DeclRefExpr" and strip_casts(y.c[1]).name == iv) for y in body.walk())
            if not indexes_table:
                continue
            lo, hi = (cl["first"][1], cl["last"][1]) if cl["dir"] == "asc" else (cl["last"][1], cl["first"][1])
            ok = lo <= a1 and hi >= a4
            n += 1
            rep.saw(f)
            rep.check(ok, rule, where(f), "%s:%s@%s" % (f.name, cl["var"], lp.line), "a walk that picks out accumulators covers ORC_VAR_A1 .. ORC_VAR_A4",
                      "%s walks variables %d..%d and picks out the accumulators among them, but the accumulator slots are %d..%d: the last one is never "
                      "initialised / stored by this walk - its result starts from what the register held before the call" % (f.name, lo, hi, a1, a4), line=lp.line)
    if n < 2:
        raise AnalysisBroken("only %d accumulator walks found" % n)
    return n
