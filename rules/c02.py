"""C02 — every opcode means what the reference says (structural part).

  D1 R-NI    position / n / prefix independence of the emulator: the position
             variables (offset, n, i) occur only in the loop header and in
             subscripts of the canonical or documented forms
  D2 R-TABLE opcode table <-> emulator agreement (function name, element sizes,
             operand slots used, header declaration)
  D3 R-ORDER accumulators are zeroed before the first emulateN call; x2/x4 only
             scale n in orc_executor_emulate
  D4 R-WIDEN 64-bit parameter operands: orc_executor_emulate (and helpers) combine the two executor slots as
             zero-extended low | high << 32
Value semantics (saturation, rounding, byte order ...) are NOT decided.
"""
import re

from facts import AnalysisBroken, access_path, init_rows, strip_casts, unparse
from emu import EmuFunc, TYPE_SIZE
from rules_common import where

P = r"\(orc_union64\*\)ex->src_ptrs\[%d\]->i"
J = r"\(?offset\+i\)?"
# documented index forms (doc/opcode_table.xml: loadoff array[i+offset]; loadupdb array[i>>1];
# loadupib array[i>>1], array[(i+1)>>1]; ldresnear array[(b+c*i)>>k]; ldreslin the two neighbours)
SPECIAL_FORMS = {
    "loadoff": [r"^%s\+%s$" % (J, P % 1)],
    "loadupdb": [r"^%s>>1$" % J],
    "loadupib": [r"^%s>>1$" % J, r"^\(%s>>1\)\+1$" % J],
    "ldresnear": [r"^\(%s\+\(%s\*%s\)\)>>\d+$" % (P % 1, J, P % 2)],
    "ldreslin": [r"^tmp>>\d+$", r"^\(tmp>>\d+\)\+1$"],
}
# opcodes whose documented value depends on the element index itself
INDEX_IN_VALUE = {"loadupib": "interpolates on odd indices", "ldreslinb": "interpolation weights come from the fractional position",
                  "ldreslinl": "interpolation weights come from the fractional position"}


def forms_for(op):
    for k, v in SPECIAL_FORMS.items():
        if op.startswith(k):
            return v
    return []


def run(ctx):
    db = ctx.db()
    rep = ctx.report
    rep.explanation = (
        "Non-interference and table agreement of the reference emulator, decided over all emulate_* functions: the position "
        "variables offset/n/i occur only in the canonical loop header and in subscripts of canonical form (i for chunk temporaries, "
        "offset+i for arrays) or of the documented forms of the up-sampling / offset / resampling loads (frozen from "
        "doc/opcode_table.xml); no emulate function reads the x2/x4 shift; every opcodes[] row names emulate_<row>, element types of "
        "the operand pointers have the table's sizes, only declared operand slots are used; accumulators are zeroed before the first "
        "emulateN call and prefixes only scale n. What each opcode computes from its operands is NOT decided.")
    rep.assumptions += ["documented index forms of loadoff*/loadup*/ldres* as in doc/opcode_table.xml (shift amounts are values, not checked)"]
    tu = db.tu("orcemulateopcodes")
    emus = {f.name: EmuFunc(f) for f in tu.main_functions() if f.name.startswith("emulate_")}
    rows = [r for r in init_rows(db.tu("orcopcodes-sys").global_("opcodes")) if isinstance(r, dict) and r.get("name")]
    if len(emus) < 150 or len(rows) < 150:
        raise AnalysisBroken("emulator: %d functions, table: %d rows" % (len(emus), len(rows)))
    flags = {k: db.macro_int(k) for k in ("ORC_STATIC_OPCODE_ACCUMULATOR", "ORC_STATIC_OPCODE_LOAD", "ORC_STATIC_OPCODE_STORE", "ORC_STATIC_OPCODE_SCALAR")}
    rowby = {r["name"]: r for r in rows}

    # ---- D1 -------------------------------------------------------------------
    for name, e in sorted(emus.items()):
        rep.saw(e.f)
        w = where(e.f)
        op = e.op
        ok_loop = e.loops == [("(i = 0)", "(i < n)", "i++")]
        rep.check(ok_loop, "D1-R-NI", w, "loop-header", "single canonical loop for (i = 0; i < n; i++)",
                  "emulate function does not iterate with the canonical header (loops: %s): element order/count depends on something else" % e.loops)
        allowed = forms_for(op)
        bad = []
        for n, pn, ix, st in e.subs:
            if ix in ("i", "offset+i"):
                continue
            if any(re.match(p, ix) for p in allowed):
                continue
            bad.append((pn, ix))
        rep.check(not bad, "D1-R-NI", w, "subscripts",
                  "%d subscripts, all of form i / offset+i%s" % (len(e.subs), " or the documented forms of this load" if allowed else ""),
                  "subscript(s) %s are not of a canonical or documented index form: the element read/written depends on the position in a way the reference does not define" % bad[:3],
                  line=e.subs[0][0].line if e.subs else None)
        pu = [(v, c) for _, v, c in e.pos_uses]
        if op in INDEX_IN_VALUE:
            # allowed only inside the expression that defines tmp / the parity test
            pu = [x for x in pu if not ("offset + i" in x[1])]
        rep.check(not pu, "D1-R-NI", w, "position-variables",
                  "offset/n/i are used only in the loop header and in subscripts%s" % (" (%s)" % INDEX_IN_VALUE[op] if op in INDEX_IN_VALUE else ""),
                  "the value computed for an element depends on its position: %s used in `%s`" % (pu[0][0], pu[0][1]) if pu else "",
                  line=e.pos_uses[0][0].line if e.pos_uses else None)
        rep.check(not e.reads_shift, "D1-R-NI", w, "no-shift-read", "does not read the x2/x4 shift", "emulate function reads ex->shift: the result depends on the prefix")

    # ---- D2 -------------------------------------------------------------------
    hdr_protos = {p["name"] for p in db.tu("orcopcodes-sys").protos if not p["def"] and p["file"].endswith("orcemulateopcodes.h")}
    for r in rows:
        nm = r["name"]
        fn = r["emulateN"][1] if isinstance(r["emulateN"], tuple) else None
        ok = fn == "emulate_" + nm and fn in emus
        rep.check(ok, "D2-R-TABLE", "orc/orcopcodes-sys.c", "row:%s" % nm, "row `%s` dispatches to %s" % (nm, fn),
                  "row `%s` of opcodes[] dispatches to `%s`, not to emulate_%s" % (nm, fn, nm))
        if fn not in emus:
            continue
        e = emus[fn]
        rep.check(fn in hdr_protos, "D2-R-TABLE", "orc/orcemulateopcodes.h", "declared:%s" % fn, "declared in the header", "%s is not declared in orcemulateopcodes.h" % fn)
        ds = r["dest_size"] if isinstance(r["dest_size"], list) else []
        ss = r["src_size"] if isinstance(r["src_size"], list) else []
        isacc = bool(r["flags"] & flags["ORC_STATIC_OPCODE_ACCUMULATOR"])
        probs = []
        for pn, d in e.ptrs.items():
            sizes = ds if d["role"] == "dest" else ss
            want = sizes[d["k"]] if d["k"] < len(sizes) else 0
            if want == 0:
                probs.append("%s slot %d is used but the table declares no such operand" % (d["role"], d["k"]))
            elif d["size"] != want:
                probs.append("%s[%d] is accessed as %s (%s bytes) but the table says %d" % (d["role"], d["k"], d["elem"], d["size"], want))
        for role, k, st in e.scalar_reads:
            sizes = ds if role == "dest" else ss
            want = sizes[k] if k < len(sizes) else 0
            if want == 0:
                probs.append("%s slot %d is used but the table declares no such operand" % (role, k))
        # every declared operand is used
        for role, sizes in (("dest", ds), ("src", ss)):
            for k, v in enumerate(sizes):
                if v and k not in e.slot_uses[role]:
                    probs.append("declared %s operand %d (size %d) is never used" % (role, k, v))
        rep.check(not probs, "D2-R-TABLE", where(e.f), "sizes:%s" % nm,
                  "operand element sizes dest%s src%s agree with the pointer types" % (ds, ss),
                  "emulate_%s disagrees with its table row: %s" % (nm, "; ".join(probs[:3])))
    extra = sorted(set(emus) - {"emulate_" + r["name"] for r in rows})
    if extra:
        rep.info("emulate functions without a table row: %s" % extra[:5])

    # ---- D3 -------------------------------------------------------------------
    ee, calls = acc_zero(db, rep, "D3-ACC-ZERO")
    for c in calls:
        a = c.args()
        t = unparse(a[2])
        # an x2/x4 instruction works on 2/4 lanes per element: lane count AND index of the chunk's first lane are both scaled by
        # the instruction's shift (explicit x2/x4 loads and stores index the arrays with offset + i)
        def scaled(e, what):
            e = strip_casts(e)
            return e is not None and e.k == "BinaryOperator" and e.op == "<<" and unparse(e.c[1]).replace(" ", "").endswith("opcode_ex[j].shift") and what(strip_casts(e.c[0]))
        is_i = lambda x: x is not None and access_path(x) == "i"
        is_cnt = lambda x: x is not None and (x.v is not None or "i" in {access_path(y) for y in x.walk()})
        ok = scaled(a[2], is_cnt) and scaled(a[1], is_i)
        rep.check(ok, "D3-PREFIX", where(ee), "emulateN(%s)" % t[:40], "x2/x4 scale the lane count and the index of the chunk's first lane alike",
                  "emulateN is called with offset=`%s`, n=`%s`: for an x2/x4 instruction the lane count and the first lane of the chunk must both be the "
                  "element values shifted by the instruction's shift, or explicit x2/x4 loads and stores index every chunk after the first wrongly" % (unparse(a[1]), t), line=c.line)
    # ... and so is the ELEMENT offset of loadoffX: the constant / 4-byte parameter staged for the scalar operand of a two-source
    # load opcode has to be scaled by the instruction's shift as well (the value handed to load_constant depends, through the
    # function's locals, on opcode_ex[j].shift)
    from flow import single_defs as _sd3
    sd3 = _sd3(ee)
    staged = []
    for c in ee.calls("load_constant"):
        a = c.args()
        if len(a) < 3:
            continue
        if "src_args" not in unparse(a[0]):
            continue
        # an 8-byte parameter is never an element offset (the scalar operand of loadoffX is 4 bytes wide): the arm that stages it
        # alone is not judged.  Every other staging call is, whatever helper or local the value goes through.
        from flow import Facts as _Facts3
        fc3 = _Facts3(ee)
        if any(cd[0] != "switch" and ((cd[1] and "size==8" in unparse(cd[0]).replace(" ", "")) or (not cd[1] and "size!=8" in unparse(cd[0]).replace(" ", "")))
               for cd in fc3.conds(c)):
            continue                # (must-facts are normalised: `!(size == 8)` on the else side, `size != 8` ... are the same fact)
        if True:
            leaves, todo, seen3 = set(), [a[2]], set()
            while todo:
                e3 = todo.pop()
                for y in e3.walk():
                    if y.k == "MemberExpr":
                        leaves.add(y.name)
                    if y.k == "DeclRefExpr" and y.get("dk") == "local" and y.name in sd3 and y.name not in seen3:
                        seen3.add(y.name)
                        todo.append(sd3[y.name])
            staged.append((c, "shift" in leaves))
    if len(staged) < 2:
        raise AnalysisBroken("orc_executor_emulate: staging of constant / parameter operands (load_constant) not found")
    for c, ok3 in staged:
        rep.check(ok3, "D3-PREFIX", where(ee), "staged-scalar@%s" % c.line,
                  "the staged scalar operand is scaled by the instruction's shift where it is an element offset",
                  "orc_executor_emulate stages `%s` for the emulation function without regard to the x2/x4 shift: the offset of loadoffX counts array "
                  "elements, the emulation function walks lanes, so `x2 loadoffw d, s, 1` takes lane l of element i from the middle of another element "
                  "instead of from element i + 1" % unparse(c.args()[2])[:60], line=c.line)
    src = emus_dispatch_source(ee)
    rep.check(src, "D3-PREFIX", where(ee), "emulateN-from-opcode", "emulateN is taken from the instruction's own opcode",
              "orc_executor_emulate no longer takes emulateN from insn->opcode")

    # ---- D4: 64-bit parameter operands reach the emulator intact ----------------------------------
    # (orc_executor_emulate and its helpers reassemble an 8-byte parameter from two int slots; the low half must be
    #  zero-extended before the shifted high half is OR-ed in -- same type-level rule as C04-D3 / C07-D3b)
    from widen import check_or_halves
    n4 = 0
    for f in db.tu("orcexecutor").main_functions():
        n4 += check_or_halves(f, rep, "D4-PARAM-HALVES", where(f))
    if n4 < 1:
        raise AnalysisBroken("no `lo | hi << 32` assembly found in orcexecutor.c")

    d6_reuse_key(db, rep)
    const_pool_key(db, rep, "D8-CONST-POOL-KEY")
    d12_shift_and_division_domain(db, rep)
    # the element count a native loop runs over must not depend on stale executor contents (position/n independence of the result) (shared with C03 D8)
    import emitstate as _es
    _names = {}
    for _fld in db.record("OrcExecutor")["fields"]:
        _names.setdefault(_fld["off"], _fld["name"])
    _es.check(db.tu("orcprogram-x86"), rep, "D7-COUNTERS-DEFINED", where, offset_names=_names)

    # ---- D5: saturation agrees with the reference (doc/opcode_table.xml) --------------------------
    # An opcode whose reference pseudo code is clamp(...) / sign(a) must saturate in the emulator; every other opcode
    # must NOT contain a saturation that can take effect (two's-complement wrap-around).  "Can take effect" is decided
    # by interval arithmetic over the declared operand types, so a clamp that is provably a no-op is accepted.
    import html
    from interval import bounds, enclosing_assignment, interval
    xml = open(ctx.repo + "/doc/opcode_table.xml").read()
    doc = {}
    for r in re.findall(r"<row>(.*?)</row>", xml, re.S):
        e = [html.unescape(x).strip() for x in re.findall(r"<entry>(.*?)</entry>", r, re.S)]
        if len(e) >= 6 and re.match(r"^[a-z0-9]+$", e[0]) and e[0] != "opcode":
            doc[e[0]] = e
    if len(doc) < 150:
        raise AnalysisBroken("doc/opcode_table.xml: only %d opcode rows parsed" % len(doc))
    nsat = 0
    for name, e in sorted(emus.items()):
        if e.op not in doc:
            continue
        row = doc[e.op]
        desc, pseudo = row[4], row[5]
        m = re.match(r"^clamp\((.*?)(?:,\s*(-?\d+)\s*,\s*(-?\d+))?\)$", pseudo)
        want = None
        if m and m.group(2) is not None:
            want = (int(m.group(2)), int(m.group(3)))
        elif m:
            bits = 8 * int(row[1])
            uns = (" to unsigned" in desc) or (" to signed" not in desc and "unsigned" in desc)
            want = (0, (1 << bits) - 1) if uns else (-(1 << (bits - 1)), (1 << (bits - 1)) - 1)
        elif pseudo == "sign(a)":
            want = (-1, 1)
        bs = bounds(e.f)
        eff = [b for b in bs if b[5]]
        w = where(e.f)
        if want is None:
            rep.check(not eff, "D5-SATURATION", w, "wraps:%s" % e.op,
                      "reference `%s` does not saturate and the emulator contains no bound against a constant that can take effect (%d no-op bounds)" % (pseudo, len(bs)),
                      "the reference defines %s as `%s` (no saturation: the result wraps) but emulate_%s bounds `%s` %s by %s although that operand ranges over %s" %
                      ((e.op, pseudo, e.op, unparse(eff[0][1])[:60], "below" if eff[0][2] == "lo" else "above", eff[0][3], eff[0][4]) if eff else ("",) * 7),
                      line=eff[0][0].line if eff else None)
        else:
            nsat += 1
            probs = []
            for b in eff:
                if b[3] != (want[0] if b[2] == "lo" else want[1]):
                    probs.append("bounds `%s` %s by %d" % (unparse(b[1])[:50], "below" if b[2] == "lo" else "above", b[3]))
            asg = {id(a): a for a in (enclosing_assignment(b[0]) for b in eff) if a is not None}
            if not eff:
                probs.append("contains no saturation that can take effect")
            for a in asg.values():
                iv = interval(a.c[1])
                if iv is None or iv[0] < want[0] or iv[1] > want[1]:
                    probs.append("the value assigned at line %s ranges over %s" % (a.line, iv))
            rep.check(not probs, "D5-SATURATION", w, "saturates:%s" % e.op,
                      "reference `%s` (%s): every effective bound is one of [%d, %d] and the result stays inside" % (pseudo, desc, want[0], want[1]),
                      "the reference defines %s as `%s` (%s), i.e. saturation to [%d, %d]; emulate_%s %s" %
                      (e.op, pseudo, desc, want[0], want[1], e.op, "; ".join(probs[:3])))
    if nsat < 25:
        raise AnalysisBroken("only %d saturating opcodes recognised in the reference table" % nsat)


def acc_zero(db, rep, rule):
    """every accumulator slot of the executor is zeroed before the first emulateN call, on every path (also for code-only
    executors, whose structure lives uncleared on a wrapper's stack)."""
    ee = db.func("orc_executor_emulate", "orcexecutor")
    rep.saw(ee)
    calls = [c for c in ee.calls() if c.name is None and "emulateN" in unparse(c.c[0])]
    if not calls:
        raise AnalysisBroken("orc_executor_emulate: emulateN call not found")
    zero = {}
    for n in ee.walk():
        if n.k == "BinaryOperator" and n.op == "=" and strip_casts(n.c[0]).k == "ArraySubscriptExpr" and \
                (access_path(strip_casts(n.c[0]).c[0]) or "").endswith("->accumulators") and strip_casts(n.c[1]).v == 0:
            zero[strip_casts(n.c[0]).c[1].v] = n
    nacc = db.field("OrcExecutor", "accumulators")["alen"]
    ok = all(k in zero and all(ee.dominates(zero[k], c) for c in calls) for k in range(nacc))
    rep.check(ok, rule, where(ee), "accumulators", "all %d accumulators are zeroed before any emulateN call" % nacc,
              "accumulator(s) %s are not reset before emulation starts: sums do not start from zero" % [k for k in range(nacc) if k not in zero])
    return ee, calls


def emus_dispatch_source(ee):
    for n in ee.walk():
        if n.k == "BinaryOperator" and n.op == "=" and unparse(n.c[0]).endswith(".emulateN"):
            return unparse(n.c[1]) in ("opcode->emulateN", "insn->opcode->emulateN")
    return False



def d6_reuse_key(db, rep, rule="D6-REUSE-KEY"):
    """D6: orc_compiler_rewrite_insns lets several instructions share the temporary that holds a loaded parameter/constant.
    What is in that temporary depends on three things of the use that created it: which parameter, the operand size of the
    opcode, and the x2/x4 replication.  The facts known where the compiler decides to reuse a temporary must tell any two
    uses that differ in one of these apart.  Decided by finite evaluation: over operand sizes {1,2,4,8}, replication
    {1,2,4} and two parameters, the equality facts (stored attribute == expression of the use) and the arguments handed to
    opaque predicates are evaluated; two different uses with the same signature mean the wrong value can be reused."""
    import itertools
    from exprval import NotPure, evaluate, variables
    from flow import Facts
    from loops import counted
    f = db.func("orc_compiler_rewrite_insns", "orccompiler")
    rep.saw(f)
    decision = None
    for lp in f.walk():
        if lp.k != "ForStmt":
            continue
        cl = counted(lp)
        if not cl or lp.c[3] is None:
            continue
        lv = cl["var"]
        if not any(x.k == "MemberExpr" and x.name == "has_parameter" and ("[%s]" % lv) in unparse(x) for x in lp.c[3].walk()):
            continue
        for x in lp.c[3].walk():
            if x.k == "BinaryOperator" and x.op == "=" and access_path(strip_casts(x.c[1])) == lv and strip_casts(x.c[0]).k == "DeclRefExpr":
                decision = (x, lv)
    if decision is None:
        raise AnalysisBroken("orc_compiler_rewrite_insns: the loop that looks for an already loaded parameter was not found")
    node, lv = decision
    X2, X4 = db.macro_int("ORC_INSTRUCTION_FLAG_X2"), db.macro_int("ORC_INSTRUCTION_FLAG_X4")
    INPUTS = ("opcode->src_size[]", "multiplier", "insn.flags", "insn.src_args[]")
    eqs, opaque = [], []
    for c in Facts(f).conds(node):
        if c[0] == "switch":
            continue
        n, pol = c
        calls = [y for y in n.walk() if y.k == "CallExpr" and y.name not in ("strcmp", "__builtin_expect")]
        if calls:
            for y in calls:
                for a in y.args():
                    if variables(a) & set(INPUTS):
                        opaque.append(a)
            continue
        if n.k == "BinaryOperator" and ((n.op == "==" and pol) or (n.op == "!=" and not pol)):
            for stored, e in ((n.c[0], n.c[1]), (n.c[1], n.c[0])):
                if ("[%s]" % lv) in unparse(stored) and ("[%s]" % lv) not in unparse(e) and variables(e) & set(INPUTS):
                    eqs.append(e)
    sigs = {}
    clash = None
    for S, M, P in itertools.product((1, 2, 4, 8), (1, 2, 4), (40, 41)):
        env = {"opcode->src_size[]": S, "multiplier": M, "insn.flags": {1: 0, 2: X2, 4: X4}[M], "insn.src_args[]": P}
        sig = []
        for e in eqs:
            try:
                sig.append(evaluate(e, env))
            except NotPure:
                sig.append(tuple(sorted((k, env[k]) for k in variables(e) if k in env)))
        for a in opaque:
            try:
                v = evaluate(a, env)
                if "insn.flags" in variables(a):
                    v &= (X2 | X4)
                sig.append(v)
            except NotPure:
                sig.append(tuple(sorted((k, env[k]) for k in variables(a) if k in env)))
        sig = tuple(sig)
        if sig in sigs and sigs[sig] != (S, M, P) and clash is None:
            clash = (sigs[sig], (S, M, P))
        sigs.setdefault(sig, (S, M, P))
    rep.check(clash is None, rule, where(f), "param-temp-reuse",
              "%d equality facts and %d predicate arguments at the reuse decision tell all 24 (operand size, replication, parameter) combinations apart" % (len(eqs), len(opaque)),
              "the conditions under which orc_compiler_rewrite_insns reuses a loaded parameter do not distinguish a use with operand size %d x%d from one with "
              "operand size %d x%d (same parameter): the second instruction reads the first one's temporary although the value loaded for it has a "
              "different lane structure (e.g. `x2 addb ..p` then `addw ..p`: p = 1 is read as 0x0101)" %
              ((clash[0][0], clash[0][1], clash[1][0], clash[1][1]) if clash else (0, 0, 0, 0)), line=node.line)


def const_pool_key(db, rep, rule):
    """The compiler's constant pool holds two kinds of entry, told apart by `is_long`: short ones keyed by `.value`, long ones
    by `.full_value[]`; the other key field of an entry is meaningless (zero).  Every lookup that `break`s / returns on a
    comparison of one key field must also test the discriminator for that kind - otherwise a request for the short constant
    0 is answered with the register of the first long constant (whose `.value` is 0): e.g. the zero `convulq` interleaves
    with becomes a pshufb mask, under exactly the flag subsets that create such a mask."""
    from flow import Facts
    tu = db.tu("orccompiler")
    n = 0
    for f in tu.main_functions():
        fc = None
        for x in f.walk():
            if x.k != "BinaryOperator" or x.op != "==":
                continue
            l = strip_casts(x.c[0])
            p_ = access_path(l) or ""
            if l is None or "constants[" not in unparse(l):
                continue
            kind = "short" if unparse(l).endswith(".value") else ("long" if ".full_value" in unparse(l) else None)
            if kind is None:
                continue
            # the discriminator is tested in the same condition (a conjunct of the enclosing && chain) or dominates it
            top = x
            while top.parent is not None and top.parent.k in ("BinaryOperator", "ParenExpr") and (top.parent.k == "ParenExpr" or top.parent.op == "&&"):
                top = top.parent
            want = 0 if kind == "short" else 1
            ok = False
            for y in top.walk():
                if y.k == "BinaryOperator" and y.op in ("==", "!=") and unparse(strip_casts(y.c[0])).endswith(".is_long") and strip_casts(y.c[1]).v is not None:
                    val = strip_casts(y.c[1]).v
                    if (y.op == "==" and bool(val) == bool(want)) or (y.op == "!=" and bool(val) != bool(want)):
                        ok = True
                if y.k == "UnaryOperator" and y.op == "!" and unparse(strip_casts(y.c[0])).endswith(".is_long") and want == 0:
                    ok = True
            if not ok:
                fc = fc or Facts(f)
                for c_ in fc.conds(x):
                    if c_[0] != "switch" and unparse(strip_casts(c_[0])).endswith(".is_long") and bool(c_[1]) == bool(want):
                        ok = True
            n += 1
            rep.saw(f)
            rep.check(ok, rule, where(f), "%s:%s@%s" % (f.name, kind, x.line),
                      "the %s key of a pool entry is compared only for entries of that kind" % kind,
                      "%s matches a constant-pool entry on its %s key (`%s`) without testing `is_long`: entries of the other kind carry 0 in that field, so a "
                      "request for the %s constant 0 is answered with another constant's register - under the flag subsets that create such an entry the "
                      "program computes with a shuffle mask instead of zero" % (f.name, kind, unparse(x)[:60], kind), line=x.line)
    if n < 2:
        raise AnalysisBroken("only %d constant-pool key comparisons found in orccompiler.c" % n)
    return n




def d12_shift_and_division_domain(db, rep):
    """Two operand-value clauses with a structural side in the emulator.
    D12-SHIFT-COUNT-RANGE: "shifts by 0..width-1" - where an emulate_sh* function masks its count, the mask keeps every count below the
    element width (mask >= width-1); a narrower mask (0x1f on a 64-bit shift) turns counts 32..63 into count-32.
    D13-EMU-DIVISOR-GUARDED: an integer division whose divisor is an element value sits in the else-branch of a `divisor == 0 ?` test of
    that very expression (same operand, same mask), the constant the reference gives for division by zero being the other branch."""
    def peel(e):
        e = strip_casts(e)
        while e is not None and e.k == "ParenExpr":
            e = strip_casts(e.c[0])
        return e
    NARROW = {"orc_uint8": 8, "orc_int8": 8, "unsigned char": 8, "signed char": 8, "char": 8, "orc_uint16": 16, "orc_int16": 16, "short": 16, "unsigned short": 16}

    def canon(e, mask=None):
        """text of an integer expression with parentheses and value-preserving casts removed.  An explicit cast to an 8- or 16-bit
        type is kept in the text (it can turn a non-zero value into 0) unless the expression is masked, right there, with a constant
        that fits the narrow type."""
        pre = ""
        while e is not None and e.k in ("ParenExpr", "ImplicitCastExpr", "CStyleCastExpr"):
            if e.k == "CStyleCastExpr":
                w = NARROW.get((e.ty or "").strip())
                if w is not None and not (mask is not None and 0 <= mask < (1 << w)):
                    pre += "(%s)" % e.ty.strip()
            e = e.c[0] if e.c else None
        if e is None:
            return "?"
        if e.k == "BinaryOperator":
            m = None
            if e.op == "&":
                vs = [peel(x).v for x in e.c if peel(x) is not None and peel(x).v is not None]
                m = vs[0] if vs else None
            return pre + "(%s%s%s)" % (canon(e.c[0], m), e.op, canon(e.c[1], m))
        if e.v is not None and e.k not in ("MemberExpr", "DeclRefExpr", "ArraySubscriptExpr"):
            return pre + str(e.v)
        return pre + unparse(e)
    bits = {"b": 8, "w": 16, "l": 32, "q": 64}
    ns = nd = 0
    for f in db.tu("orcemulateopcodes").main_functions():
        if not f.name.startswith("emulate_"):
            continue
        op = f.name[len("emulate_"):]
        for e in f.walk():
            if e.k != "BinaryOperator":
                continue
            if e.op in ("<<", ">>") and op[:3] in ("shl", "shr") and op[-1] in bits:
                r = peel(e.c[1])
                if r is None or r.v is not None:
                    continue
                ns += 1
                rep.saw(f)
                ok, m = True, None
                if r.k == "BinaryOperator" and r.op == "&":
                    ms = [peel(x).v for x in r.c if peel(x) is not None and peel(x).v is not None]
                    m = ms[0] if ms else None
                    ok = m is None or m >= bits[op[-1]] - 1
                rep.check(ok, "D12-SHIFT-COUNT-RANGE", where(f), "%s@%s" % (f.name, e.line), "the shift count is used whole, or masked with at least width-1",
                          "%s masks its shift count with 0x%x although the element is %d bits wide: counts %d..%d shift by a different amount than asked "
                          "(the reference shifts by 0..width-1)" % (f.name, m or 0, bits[op[-1]], (m or 0) + 1, bits[op[-1]] - 1), line=e.line)
            elif e.op in ("/", "%") and "float" not in (e.ty or "") and "double" not in (e.ty or ""):
                r = peel(e.c[1])
                if r is None or r.v is not None:
                    continue
                nd += 1
                rep.saw(f)
                want = canon(r)
                guards = []
                x, child = e.parent, e
                while x is not None:
                    if x.k == "ConditionalOperator" and len(x.c) == 3 and any(y is child for y in x.c[2].walk()) | (x.c[2] is child):
                        c = peel(x.c[0])
                        if c is not None and c.k == "BinaryOperator" and c.op == "==" and peel(c.c[1]) is not None and peel(c.c[1]).v == 0:
                            guards.append(canon(c.c[0]))
                    child, x = x, x.parent
                rep.check(want in guards, "D13-EMU-DIVISOR-GUARDED", where(f), "%s:/%s" % (f.name, want[:40]),
                          "the divisor is tested against 0 by the enclosing conditional",
                          "%s divides by `%s` under the guard(s) %s: a divisor the guard lets through can be 0 (SIGFPE in the emulator, where the reference "
                          "gives a constant)" % (f.name, want[:60], guards or "none"), line=e.line)
    if ns < 12 or nd < 1:
        raise AnalysisBroken("emulator shifts by a variable count: %d (12 expected), guarded integer divisions: %d" % (ns, nd))
    return ns + nd
