"""C11 — target feature flags bound the instructions that are emitted (sentence 1).

R-GUARD: every x86 instruction an emitter can produce needs an ISA level (decided
by GNU as with restricted -march sets, per register class and operand form) that
is implied by the flags under which the site is reached: the required flags of
every rule set the rule function is registered in, plus the target_flags tests
dominating the site (propagated through helper calls).
Sentence 2 (same results under every flag subset) is NOT decided.
"""
import os

from facts import AnalysisBroken, access_path, init_rows, strip_casts, unparse
from x86guard import Backend, IsaOracle, LADDER, asm_forms, flag_levels
from rules_common import where


def run(ctx):
    db = ctx.db()
    rep = ctx.report
    rep.explanation = (
        "For the three x86 backends: rule registrations are read from orc_compiler_{sse,mmx,avx}_register_rules (rule function, "
        "opcode, required flags of the rule set current at that point); every call site of the instruction emitters reachable from a "
        "rule function (helpers followed to depth 4, guards accumulated from `target_flags & FLAG` tests dominating each call) is "
        "resolved to table rows, register class (mm/xmm/VEX128/VEX256 from the emitter and its prefix argument) and operand form; "
        "the minimum ISA level of that instruction form is obtained from GNU as by assembling the table's own mnemonic under "
        "increasing -march sets (mmx < sse < sse2 < sse3 < ssse3 < sse4.1 < sse4.2 < avx < avx2); the site holds if the flag of that "
        "instruction's OWN level is established for the site - by the flag word(s) of the rule set(s) registering the rule or by a "
        "dominating `target_flags & FLAG` guard - or the level is at or below the target's base requirement (the level every flag "
        "word the target accepts includes). A higher flag does not stand in for a lower one above the base: the caller may pass any "
        "subset (SSE4.2 without SSE4.1). MMXEXT counts as level `sse` on mm registers only. A mnemonic/register-class combination "
        "GNU as accepts at no level is a violation of its own (no such encoding). "
        "Non-rule emitters of each backend are attributed the weakest rule-set requirement of the target. No Orc code runs.")
    rep.assumptions += ["binutils' per-extension instruction tables are the ISA reference",
                        "flags are independent above the target's base level (own-flag semantics, as the property words it); at or below the base level the hardware implication between levels is trusted; MMXEXT (set from SSE2 or AMD MMXEXT) only implies the SSE integer extensions on mm registers",
                        "helper call chains deeper than 4 and indirect calls (load_constant slots) are covered by the non-rule pass"]
    oracle = IsaOracle(os.path.join(ctx.scratch, "isa"))
    total_sites = 0
    ndel = [0]
    nlanes = [0]
    for target in ("sse", "mmx", "avx"):
        be = Backend(db, target)
        fl = flag_levels(target)
        regs = be.registrations()
        if len(regs) < 100:
            raise AnalysisBroken("%s: only %d rule registrations recovered" % (target, len(regs)))
        by_fn = {}
        for fn, opname, word in regs:
            if fn is None:
                raise AnalysisBroken("%s: registration of %s with a non-function" % (target, opname))
            by_fn.setdefault(fn, []).append((opname, word))
        base_level = min(max([fl[n] for n in be.flag_names(w)] or [0]) for _, _, w in regs)
        # collect sites
        work = []   # (owner-key, have-level, site)
        have_sets = {}
        rule_funcs = set()
        for fn, lst in sorted(by_fn.items()):
            f = db.func(fn, be.rules_tu.base[:-2])
            rule_funcs.add(fn)
            rep.saw(f)
            req_levels = [max([fl[n] for n in be.flag_names(w)] or [0]) for _, w in lst]
            req = min(req_levels)
            for site in be.all_sites(f):
                work.append(("%s:%s" % (target, fn), req, site, sorted({o for o, _ in lst})[:3]))
            # flags common to every rule set this function is registered in
            sets_ = [{fl[n] for n in be.flag_names(w)} for _, w in lst]
            have_sets["%s:%s" % (target, fn)] = set.intersection(*sets_) if sets_ else set()
        # non-rule emitters of this backend
        covered = {(s[2][0].name, s[2][0].tu.base) for s in work}
        for t in db.tus.values():
            if not (t.base.startswith("orc") and (target in t.base or t.base in ("orcx86.c", "orcprogram-x86.c"))):
                continue
            for f in t.main_functions():
                if (f.name, t.base) in covered or f.name in rule_funcs:
                    continue
                if t.base in ("orcx86.c", "orcprogram-x86.c") and target not in f.name.lower():
                    continue
                for c, rows, cls, form, g in be.local_sites(f):
                    work.append(("%s:<base>" % target, base_level, (f, c, rows, cls, form, frozenset(g), ()), []))
        # ISA levels for all needed forms
        need = {}
        for owner, have, (f, c, rows, cls, form, guards, stack), ops in work:
            for r in rows:
                if not (0 <= r < len(be.rows)):
                    continue
                row = be.rows[r]
                tn = be.tname.get(row["type"], "?")
                for k in (["vex128", "vex256"] if cls == "vex?" else [cls]):
                    for fm in (form, "mem" if form == "reg" else "reg"):
                        need[(r, k, fm)] = asm_forms(tn, row["name"], k, fm)
        lines = [l for v in need.values() for l in v]
        lv = dict(zip(lines, oracle.levels(lines)))
        level_of = {}
        for key, ls in need.items():
            got = [lv[l] for l in ls if lv.get(l) is not None]
            level_of[key] = min(got) if got else None
        seen = set()
        nsite = 0
        setviol = []
        for owner, have0, (f, c, rows, cls, form, guards, stack), ops in work:
            have = max([have0] + [fl[g] for g in guards if g in fl])
            # set semantics ("no instruction without ITS flag"): the levels individually established for this site
            have_set = set(have_sets.get(owner, ())) | {fl[g] for g in guards if g in fl}
            for r in rows:
                if not (0 <= r < len(be.rows)):
                    continue
                en = be.idx[r][0]
                for k in (["vex128", "vex256"] if cls == "vex?" else [cls]):
                    lvl = level_of.get((r, k, form))
                    if lvl is None:
                        lvl = level_of.get((r, k, "mem" if form == "reg" else "reg"))
                    if lvl is None:
                        if (need.get((r, k, form)) or need.get((r, k, "mem" if form == "reg" else "reg"))) and k in ("mm", "xmm", "vex128", "vex256") \
                                and (owner, be.idx[r][0], k, f.name, "noform") not in seen:
                            # the assembler knows this mnemonic for no operand shape of this register class at any ISA level
                            seen.add((owner, be.idx[r][0], k, f.name, "noform"))
                            nsite += 1
                            rep.violation("R-GUARD", where(f), "%s|%s:%s@%s:no-such-form" % (owner, be.idx[r][0], k, f.name),
                                          "%s emits `%s` on %s registers, a combination GNU as accepts under no -march level: the instruction has no "
                                          "encoding for that register class (what the CPU executes is undefined or another instruction)%s" %
                                          (f.name, be.rows[r]["name"], k, (" (rule for %s)" % ",".join(ops)) if ops else ""), line=c.line)
                        continue   # GP / pseudo rows: no SIMD ISA level
                    key = (owner, en, k, f.name)
                    if key in seen and lvl <= have:
                        continue
                    inst = "%s|%s:%s@%s" % (owner, en, k, f.name)
                    if key in seen:
                        continue
                    seen.add(key)
                    nsite += 1
                    chain = " <- ".join(reversed(stack + (f.name,)))
                    if lvl <= have and not (lvl <= base_level or lvl in have_set) and not owner.endswith("<base>"):
                        # "no instruction without ITS flag": a higher flag is established, but the flag of this instruction's own level is
                        # established neither by the rule set(s) of the rule nor by a guard; the caller may pass any subset of flags
                        rep.violation("R-GUARD", where(f), inst + ":own-flag",
                                      "%s emits `%s` on %s registers (%s form), which needs `%s`; the flags established for this site are %s (rule set + "
                                      "guards) - a flag word with those but without `%s` compiles and contains the instruction%s" %
                                      (chain, be.rows[r]["name"], k, form, LADDER[lvl], sorted(LADDER[x] for x in have_set), LADDER[lvl],
                                       (" (rule for %s)" % ",".join(ops)) if ops else ""), line=c.line)
                        continue
                    rep.check(lvl <= have, "R-GUARD", where(f), inst,
                              "%s (%s, %s form) needs `%s`; flags established: level `%s` (rule set + guards %s)" %
                              (be.rows[r]["name"], k, form, LADDER[lvl], LADDER[have], sorted(guards)),
                              "%s emits `%s` on %s registers (%s form), an instruction that needs `%s`, but the rule set flags%s only establish `%s`%s" %
                              (chain, be.rows[r]["name"], k, form, LADDER[lvl], (" and guards %s" % sorted(guards)) if guards else "", LADDER[have],
                               (" (rule for %s)" % ",".join(ops)) if ops else ""), line=c.line)
        total_sites += nsite
        # R-LANES: a rule that emits scalar code lane by lane must cover all lanes of the INSTRUCTION (insn_shift includes the
        # x2/x4 prefix), not just those of the loop (loop_shift); load/store opcodes, which take no prefix through the rule, aside
        orows_ = {r["name"]: r for r in init_rows(db.tu("orcopcodes-sys").global_("opcodes")) if isinstance(r, dict) and r.get("name")}
        LS_ = db.macro_int("ORC_STATIC_OPCODE_LOAD") | db.macro_int("ORC_STATIC_OPCODE_STORE")
        for fn_, lst in sorted(by_fn.items()):
            if all(o in orows_ and (orows_[o]["flags"] & LS_) for o, _ in lst):
                continue
            f_ = db.func(fn_, be.rules_tu.base[:-2])
            for lp_ in [x for x in f_.walk() if x.k == "ForStmt" and x.c[1] is not None]:
                sh = [y for y in lp_.c[1].walk() if y.k == "BinaryOperator" and y.op == "<<" and strip_casts(y.c[0]) is not None and strip_casts(y.c[0]).v == 1]
                for y in sh:
                    fld = (access_path(strip_casts(y.c[1])) or "")
                    if fld.endswith("->loop_shift") or fld.endswith("->insn_shift"):
                        nlanes[0] += 1
                        rep.check(fld.endswith("->insn_shift"), "R-LANES", where(f_), "%s:%s@%s" % (target, fn_, lp_.line),
                                  "the lane loop runs over 1 << insn_shift lanes",
                                  "%s, the %s rule for %s, emits its scalar code for 1 << loop_shift lanes: with an x2/x4 prefix the instruction has 2/4 times "
                                  "as many lanes and the rest keep their input - the result then depends on which flags select this rule" %
                                  (fn_, target, sorted({o for o, _ in lst})), line=lp_.line)
        # R-DELEGATE: a rule that hands its instruction to another rule function (fallback when a resource is missing) must hand it
        # to a rule of the SAME opcode; otherwise the result depends on which flags selected the first rule
        ops_of = {}
        for fn_, op_, _w in regs:
            ops_of.setdefault(fn_, set()).add(op_)
        for fn_, lst in sorted(by_fn.items()):
            f_ = db.func(fn_, be.rules_tu.base[:-2])
            for c_ in f_.calls():
                if c_.name in ops_of and c_.name != fn_ and len(c_.args()) == 3:
                    mine = {o for o, _ in lst}
                    ndel[0] += 1
                    rep.check(mine <= ops_of[c_.name], "R-DELEGATE", where(f_), "%s:%s->%s" % (target, fn_, c_.name),
                              "falls back to a rule registered for the same opcode(s) %s" % sorted(mine),
                              "%s, the %s rule for %s, hands the instruction to %s, which is the rule for %s - a different opcode: under the flags that select "
                              "%s the program computes something else than under the other flag subsets" %
                              (fn_, target, sorted(mine), c_.name, sorted(ops_of[c_.name]), fn_), line=c_.line)
        rep.extra.setdefault("per_backend", {})[target] = {"registrations": len(regs), "rule_functions": len(by_fn), "emission_sites": len(work),
                                                            "distinct_obligations": nsite, "unresolved_opcode_args": len(be.unresolved),
                                                            "base_level": LADDER[base_level]}
        for f, c in be.unresolved[:10]:
            rep.info("%s: opcode argument of %s in %s not constant-resolvable: %s" % (target, c.name, f.name, unparse(c.args()[1])[:60]))
    rep.floor("R-GUARD", 600)
    if nlanes[0] < 3:
        raise AnalysisBroken("only %d per-lane loops found in the x86 rules" % nlanes[0])
    if ndel[0] < 3:
        raise AnalysisBroken("only %d rule-to-rule delegations found" % ndel[0])
    # The verdicts above hold for "the flags under which a rule is reached".  That a rule is reached only when all the
    # required flags of its rule set are present, and that nothing remembers a lookup made under other flags, is the
    # premise; it is decided by C20-D2's rules, re-run here so that C11 does not pass on a tree where it fails.
    import importlib
    c20 = importlib.import_module("rules.c20")
    c20.d2(db, rep, "R-GUARD-PREMISE")
    gr_ = db.func("orc_target_get_rule", "orctarget")
    memo = [n for n in gr_.walk() if n.k == "DeclRefExpr" and n.get("dk") in ("global", "static_local") and n.name not in ("targets", "n_targets")]
    rep.check(not memo, "R-GUARD-PREMISE", where(gr_), "lookup-is-stateless",
              "rule lookup depends on its arguments only",
              "orc_target_get_rule reads or writes process-wide state (%s): a lookup made under one flag set can be answered from one made under another" %
              sorted({n.name for n in memo})[:4])
    # "For every flag subset under which the program still compiles, the code computes the same results": which constants end up in
    # the compiler's pool depends on the flags (pshufb masks only with SSSE3 ...); a lookup that confuses the two kinds of entry makes
    # the result depend on them (rule shared with C02)
    importlib.import_module("rules.c02").const_pool_key(db, rep, "R-CONST-POOL-KEY")
    # "the same results for every subset of the flags": the rule selected under one subset may not compute with a register nobody
    # wrote where the rule selected under another subset does not (convslq: pmovsxdq under SSE4.1, the unpack sequence without)
    importlib.import_module("rules.c17").two_operand_dest_defined(db, rep, "R-DEST-DEFINED")
    target_flags_from_request(db, rep)
    importlib.import_module("rules.c17").two_operand_source_preserved(db, rep, "R-SOURCE-PRESERVED")



def target_flags_from_request(db, rep, rule="R-FLAGS-FROM-REQUEST"):
    """"Compiling with a subset of the flags emits no instruction beyond that subset": the flag word every rule-set guard and
    every rule looks at is compiler->target_flags.  It must be what the compile request said - the `flags` argument handed
    down from orc_program_compile_full - possibly with a back end's own constant mode bit added (c64x-c: NOEXEC).  A store that
    mixes in what the HOST supports (get_default_flags, the cpuid words) turns `compile for sse2 only` into `compile for
    whatever this machine has`."""
    from facts import ASSIGN_OPS
    n = 0
    for f in db.all_functions():
        for st in f.walk():
            if not (st.k in ("BinaryOperator", "CompoundAssignOperator") and st.op in ASSIGN_OPS and (access_path(st.c[0]) or "").endswith("->target_flags")):
                continue
            n += 1
            rep.saw(f)
            rhs = strip_casts(st.c[1])
            params = {p_["name"] for p_ in f.params}
            ok = rhs is not None and (rhs.v is not None or (rhs.k == "DeclRefExpr" and rhs.name in params))
            rep.check(ok, rule, where(f), "%s@%s" % (f.name, st.line), "the compiler's flag word is the request's (plus constant mode bits)",
                      "%s stores `%s` into compiler->target_flags (line %s): the flags a program is compiled for are no longer the caller's - feature "
                      "bits of the host can enter, and a compile for a subset of the flags selects rule sets beyond it" % (f.name, unparse(st.c[1])[:80], st.line), line=st.line)
    if n < 2:
        raise AnalysisBroken("only %d stores to compiler->target_flags found" % n)
    return n
