"""C10 — generated functions honour the C calling convention (structural part).

  D1 push/pop pairing between orc_x86_emit_prologue and _epilogue; push/pop encode all four
   bits of the register number (REX.B), so r12..r15 are the registers actually saved
  D2 callee-saved table (SysV AMD64 / i386) and non-allocatable registers
  D3 MXCSR slot dataflow: abstract interpretation of the emission sequences of
     set_mxcsr / restore_mxcsr (which slot holds the caller's value)
  D5 branches emitted by orc_x86_compile never jump across save_registers / set_mxcsr /
   restore_mxcsr / restore_registers
D4 skeleton pairing: set => restore before the epilogue; emms on every path;
     vzeroupper before ret for AVX; symmetric stack adjustment of the vector save area
"""
from facts import AnalysisBroken, access_path, strip_casts, unparse
from flow import Facts, atom
from rules_common import where

SYSV64 = ["X86_EBX", "X86_EBP", "X86_R12", "X86_R13", "X86_R14", "X86_R15"]
I386 = ["X86_EBX", "X86_ESI", "X86_EDI", "X86_EBP"]


def stack_events(f, kind):
    """ordered [(branch64, reg-text, guard-texts, loopdir)] of push/pop emissions."""
    fc = Facts(f)
    out = []
    calls = sorted(f.calls("orc_x86_emit_%s" % kind), key=lambda c: (c.line, c.id))
    for c in calls:
        reg = unparse(c.args()[2])
        conds = [(unparse(x[0]), x[1]) for x in fc.conds(c) if x[0] != "switch"]
        b64 = None
        guards = []
        for t, pol in conds:
            if t.endswith("->is_64bit"):
                b64 = pol
            elif "used_regs" in t or "save_regs" in t or "!= X86_EBP" in t or "X86_EBP" in t:
                guards.append((t, pol))
        loopdir = None
        p = c.parent
        while p is not None:
            if p.k == "ForStmt":
                inc = unparse(p.c[2])
                init = unparse(p.c[0])
                cond = unparse(p.c[1])
                from loops import counted
                cl = counted(p)
                loopdir = (cl["dir"], cl["first"], cl["last"]) if cl else ("?", init, cond)
                break
            p = p.parent
        out.append((b64, reg, tuple(sorted(guards)), loopdir))
    return out


def run(ctx):
    db = ctx.db()
    rep = ctx.report
    rep.explanation = (
        "Structural ABI conditions decided from the x86 skeleton emitters: the conditional pushes of the prologue and the pops of "
        "the epilogue are mirror images (same register, same predicate, opposite order, frame pointer first in / last out) for the "
        "64-bit and 32-bit variants; the callee-saved table contains the SysV AMD64 / i386 sets and the stack pointer, executor and "
        "scratch registers are never allocatable; the emission sequences of set_mxcsr/restore_mxcsr are interpreted abstractly "
        "(MXCSR, scratch register and executor slots take the values ORIG/MOD) to decide that restore reloads the caller's value; "
        "in orc_x86_compile a set is always followed by a restore before the epilogue, emms is emitted on every path for the MMX "
        "target, vzeroupper precedes ret for AVX, and the vector save area is reserved and released by the same amount. Spill "
        "behaviour under register pressure and the direction flag (no std/cld row exists) are not decided.")
    rep.assumptions += ["SysV AMD64 and i386 callee-saved sets (this build is not Windows)", "executor slots written by rules are disjoint from the MXCSR save slot (closed scratch set, see C03)"]
    x86 = db.tu("orcx86")
    pro = db.func("orc_x86_emit_prologue", "orcx86")
    epi = db.func("orc_x86_emit_epilogue", "orcx86")
    rep.saw(pro)
    rep.saw(epi)

    # ---- D1 -------------------------------------------------------------------
    pu = stack_events(pro, "push")
    po = stack_events(epi, "pop")
    if len(pu) < 6 or len(po) < 6:
        raise AnalysisBroken("prologue/epilogue: %d pushes, %d pops recovered" % (len(pu), len(po)))
    for b64 in (True, False):
        a = [e for e in pu if e[0] is b64]
        b = [e for e in po if e[0] is b64]
        name = "64bit" if b64 else "32bit"
        # reversed order, same registers and guards; loops flip direction
        ok = len(a) == len(b)
        detail = "pushes %s / pops %s" % ([(e[1], [g[0] for g in e[2]]) for e in a], [(e[1], [g[0] for g in e[2]]) for e in b])
        if ok:
            for x, y in zip(a, reversed(b)):
                rx = x[1].replace("(32 + i)", "reg")
                ry = y[1].replace("(32 + i)", "reg")
                if rx != ry or x[2] != y[2]:
                    ok = False
                if (x[3] is None) != (y[3] is None):
                    ok = False
                if x[3] and y[3]:
                    if {x[3][0], y[3][0]} != {"asc", "desc"}:
                        ok = False
        rep.check(ok, "D1-PUSH-POP", where(epi), name, "epilogue pops mirror the prologue pushes: " + detail[:300],
                  "prologue and epilogue are not mirror images in the %s variant: %s" % (name, detail[:500]))
        # frame pointer first in / last out
        fp_ok = bool(a) and bool(b) and a[0][1] == "X86_EBP" and b[-1][1] == "X86_EBP" and not a[0][2] and not b[-1][2]
        rep.check(fp_ok, "D1-PUSH-POP", where(pro), name + ":rbp", "frame pointer pushed first and popped last, unconditionally",
                  "%s: frame pointer is not first in / last out" % name)
    # loop ranges of the 64-bit variant cover the same 16 registers
    la = [e[3] for e in pu if e[0] is True and e[3]]
    lb = [e[3] for e in po if e[0] is True and e[3]]
    # ascending push loop and descending pop loop walk the same inclusive register range, in opposite directions
    ok = bool(la and lb) and la[0][0] == "asc" and lb[0][0] == "desc" and la[0][1] == lb[0][2] and la[0][2] == lb[0][1] and la[0][1] == (None, 0) and la[0][2] == (None, 15)
    rep.check(ok, "D1-PUSH-POP", where(epi), "64bit:loop-range", "push loop 0..15 ascending, pop loop 15..0 descending", "push/pop loops cover different register ranges: %s vs %s" % (la, lb))

    # ---- D2 -------------------------------------------------------------------
    ci = db.func("orc_x86_compiler_init", "orcprogram-x86")
    rep.saw(ci)
    fc = Facts(ci)
    saves = {True: set(), False: set()}
    invalid = {True: set(), False: set(), None: set()}
    for n in ci.walk():
        if n.k == "BinaryOperator" and n.op == "=" and strip_casts(n.c[0]).k == "ArraySubscriptExpr":
            arr = access_path(strip_casts(n.c[0]).c[0])
            idx = strip_casts(strip_casts(n.c[0]).c[1])
            val = strip_casts(n.c[1]).v
            conds = [(unparse(x[0]), x[1]) for x in fc.conds(n) if x[0] != "switch"]
            b64 = None
            for t, pol in conds:
                if t.endswith("->is_64bit"):
                    b64 = pol
            if arr and arr.endswith("->save_regs") and val == 1 and idx.k == "DeclRefExpr":
                saves[b64].add(idx.name) if b64 is not None else None
            if arr and arr.endswith("->valid_regs") and val == 0:
                invalid[b64].add(unparse(idx))
    missing = [r for r in SYSV64 if r not in saves[True]]
    rep.check(not missing, "D2-ABI-TABLE", where(ci), "sysv-amd64-callee-saved", "save_regs contains %s" % SYSV64,
              "callee-saved register(s) %s are not marked in save_regs for the 64-bit ABI: the prologue will not preserve them" % missing)
    # i386: preserved by the explicit pushes of the 32-bit prologue
    pushed32 = {e[1] for e in pu if e[0] is False}
    missing = [r for r in I386 if r not in pushed32]
    rep.check(not missing, "D2-ABI-TABLE", where(pro), "i386-callee-saved", "32-bit prologue pushes %s" % sorted(pushed32),
              "i386 callee-saved register(s) %s are never pushed by the 32-bit prologue" % missing)
    for b64 in (True, False):
        rep.check("X86_ESP" in invalid[b64], "D2-ABI-TABLE", where(ci), "esp-not-allocatable:%s" % ("64" if b64 else "32"),
                  "stack pointer removed from the allocatable set", "valid_regs[X86_ESP] is not cleared in the %s-bit branch" % ("64" if b64 else "32"))
    alln = set().union(*invalid.values())
    rep.check("c->gp_tmpreg" in alln and "c->exec_reg" in alln, "D2-ABI-TABLE", where(ci), "exec/tmp-not-allocatable",
              "executor and scratch registers removed from the allocatable set", "exec_reg / gp_tmpreg stay allocatable: a rule could clobber the executor pointer")

    # ---- D3 -------------------------------------------------------------------
    a4, c1 = db.enum("ORC_VAR_A4"), db.enum("ORC_VAR_C1")
    for tub, pre in (("orcsse", "orc_sse"), ("orcavx", "orc_avx")):
        st = db.func(pre + "_set_mxcsr", tub)
        rs = db.func(pre + "_restore_mxcsr", tub)
        rep.saw(st)
        rep.saw(rs)
        state = {"MXCSR": "ORIG", "reg": None}
        slots = {}
        ormask = None

        def slot_of(arg):
            # ORC_STRUCT_OFFSET(OrcExecutor, params[X]) : find the subscript
            for x in arg.walk():
                if x.k == "ArraySubscriptExpr":
                    return "%s[%s]" % (access_path(x.c[0]).split("->")[-1], x.c[1].v)
            return "off%s" % arg.v

        def interp(f, state, slots):
            nonlocal ormask
            if any(len(b.succs) > 1 for b in f.blocks.values()):
                raise AnalysisBroken("%s is no longer straight-line" % f.name)
            for c in sorted(f.calls(), key=lambda c: (c.line, c.id)):
                a = c.args()
                nm = c.name or ""
                if "cpuinsn_load_memoffset" in nm:
                    row = a[1].v
                    s = slot_of(a[4])
                    if row == db.enum("ORC_X86_stmxcsr"):
                        slots[s] = state["MXCSR"]
                    elif row == db.enum("ORC_X86_ldmxcsr"):
                        state["MXCSR"] = slots.get(s, "UNDEF")
                elif nm == "orc_x86_emit_mov_memoffset_reg":
                    state["reg"] = slots.get(slot_of(a[2]), "UNDEF")
                elif nm == "orc_x86_emit_mov_reg_memoffset":
                    slots[slot_of(a[3])] = state["reg"]
                elif "cpuinsn_imm_reg" in nm and a[1].v == db.enum("ORC_X86_or_imm32_rm"):
                    ormask = a[3].v
                    if ormask:
                        state["reg"] = "MOD"
                elif nm.startswith("orc_x86_emit") or nm.startswith("orc_vex_emit"):
                    raise AnalysisBroken("%s: unknown emission %s in MXCSR sequence" % (f.name, nm))
        interp(st, state, slots)
        rep.check(state["MXCSR"] == "MOD" and "ORIG" in slots.values(), "D3-MXCSR", where(st), "set",
                  "after set: MXCSR modified, caller's value kept in %s (slots %s)" % ([k for k, v in slots.items() if v == "ORIG"], slots),
                  "set_mxcsr does not keep the caller's MXCSR in any executor slot (slots %s, MXCSR %s)" % (slots, state["MXCSR"]))
        rep.check(ormask == 0x8040, "D3-MXCSR", where(st), "mask", "mask OR-ed into MXCSR is 0x8040 (FTZ|DAZ)", "MXCSR mask is %s, expected 0x8040 (FTZ bit 15 | DAZ bit 6)" % (hex(ormask) if ormask is not None else None))
        interp(rs, state, slots)
        rep.check(state["MXCSR"] == "ORIG", "D3-MXCSR", where(rs), "restore",
                  "restore reloads the slot that holds the caller's MXCSR",
                  "restore_mxcsr loads MXCSR from a slot holding `%s` (slots after set: %s): the caller's rounding/flush bits are not restored" % (state["MXCSR"], slots))

    # ---- D4 -------------------------------------------------------------------
    xc = db.func("orc_x86_compile", "orcprogram-x86")
    rep.saw(xc)
    sets = list(xc.calls("orc_x86_set_mxcsr"))
    rests = list(xc.calls("orc_x86_restore_mxcsr"))
    epis = list(xc.calls("orc_x86_emit_epilogue"))
    emms = list(xc.calls("orc_x86_clear_emms"))
    if not (sets and epis):
        raise AnalysisBroken("orc_x86_compile: set_mxcsr / epilogue calls not found")
    # path search with constant tracking of boolean locals
    for s in sets:
        wit = _path_avoiding(xc, s, {r.id for r in rests}, {e.id for e in epis})
        rep.check(wit is None, "D4-SKELETON", where(xc), "set=>restore",
                  "every path from set_mxcsr to the epilogue passes restore_mxcsr",
                  "a path reaches the epilogue after set_mxcsr without restore_mxcsr")
    wit = _path_avoiding(xc, None, {e.id for e in emms}, {e.id for e in epis})
    rep.check(wit is None, "D4-SKELETON", where(xc), "emms-before-epilogue", "clear_emms is called on every path to the epilogue",
              "the epilogue of orc_x86_compile is reachable without clear_emms")
    # ---- D1c: every callee-saved register the generated code may write is pushed ------------------
    # In the 64-bit save loop the push must be emitted whenever used_regs[r] && save_regs[r] && r != rbp holds, whatever
    # else the guard looks at (decision-tree evaluation of the guard, through predicate helpers): a register that is
    # allocated and callee-saved but skipped by the prologue comes back clobbered.
    from guardeval import Walk, loop_body_region

    def fixed(text):
        if "used_regs[" in text or "save_regs[" in text:
            return True
        if "X86_EBP" in text and "==" in text:
            return False
        if "X86_EBP" in text and "!=" in text:
            return True
        return None
    for fn_, emit in ((pro, "orc_x86_emit_push"), (epi, "orc_x86_emit_pop")):
        loops_ = [lp for lp in fn_.walk() if lp.k == "ForStmt" and any(c.name == emit for c in lp.c[3].walk() if c.k == "CallExpr")]
        if len(loops_) != 1:
            raise AnalysisBroken("%s: register save loop not found" % fn_.name)
        body, region = loop_body_region(fn_, loops_[0])
        if body is None:
            raise AnalysisBroken("%s: loop body not identified in the CFG" % fn_.name)
        w = Walk(fn_, fixed)
        esc = w.escapes(body, lambda e: e.k == "CallExpr" and e.name == emit, region)
        rep.check(esc is None, "D1-SAVE-PREDICATE", where(fn_), "%s-whenever-used-and-callee-saved" % emit.replace("orc_x86_emit_", ""),
                  "a used callee-saved register other than rbp is always %s" % ("pushed" if "push" in emit else "popped"),
                  "%s can skip a register although it is used and callee-saved, when %s: the generated function returns with that register clobbered" %
                  (fn_.name, {k: v for k, v in (esc or {}).items() if fixed(k) is None}), line=loops_[0].line)

    # ---- D1b: the pushes and pops really name the register they print ----------------------
    from x86enc import check_rex_coverage
    check_rex_coverage(db, rep, "D1-PUSH-ENCODING", only={"STACK"})

    # ---- D5: emitted branches do not cross a save/restore boundary ------------------------
    # orc_x86_compile emits its program in C-control-flow order.  A branch emitted BEFORE one of the paired
    # events (save_registers, set_mxcsr, restore_mxcsr, restore_registers) whose label is emitted AFTER it
    # (or the reverse) makes the generated code skip that half of the pair while still running the other half.
    emitted_branch_pairs(db, rep)
    d6_used_recorded(db, rep)

    # D8: generated stores into ex->accumulators[] are exactly slot-sized: nothing is written past the executor (shared with C07 D6)
    import importlib as _il
    _il.import_module("rules.c07").d6_acc_slot_width(db, rep, "D8-ACC-SLOT-WIDTH")
    # D9: SSE/AVX code must not execute an MMX instruction (it leaves the x87 tag word non-empty and the sse/avx back ends emit no
    # emms): the prefix that tells `pxor %xmm` from `pxor %mm` is chosen from the operands' register bank (shared with C12)
    from x86enc import check_bank_prefix
    check_bank_prefix(db, rep, "D9-BANK-PREFIX")
    # D10: "writes no memory outside destination arrays ...": a store's displacement is emitted as one byte only where it lies in
    # [-128, 127]; +128 squeezed into a byte is -128, i.e. a write in front of the array (rules shared with C12 D6 / C05 D1g)
    from x86enc import check_disp8, check_rel8_predicates
    check_disp8(db, rep, "D10-DISP8-RANGE")
    check_rel8_predicates(db, rep, "D10-DISP8-RANGE")
    d11_emms_hook_unconditional(db, rep)
    # D12: same sentence: between rows of a 2-D program the code adds the int stride to the 8-byte array pointers in the executor;
    # a stride loaded without its sign moves a destination pointer forward by almost 4 GiB, the next row is written there
    # (rule shared with C03 D11)
    import importlib
    importlib.import_module("rules.c03").d11_stride_sign(db, rep, "D12-STRIDE-SIGN")
    # D7: the generated loops process exactly ex->n elements: the region counters tile n on every emitted path (shared with
    # C03 D10) - otherwise the function writes past the end of its destination arrays
    import emitsym
    for nm in ("orc_x86_emit_split_2_regions", "orc_x86_emit_split_3_regions"):
        emitsym.check_tiling(db.func(nm, "orcprogram-x86"), rep, "D7-REGION-TILING", where)

    # MMX target provides clear_emms and it emits emms
    slot = None
    for t in db.tus.values():
        for g in t.globals:
            if "OrcX86Target" in g["ty"] and "init" in g and "f" in g["init"]:
                fields = g["init"]["f"]
                nm = fields.get("name", {}).get("s")
                ce = fields.get("clear_emms", {})
                if nm == "mmx":
                    slot = ce.get("fn")
    ok = False
    if slot:
        f = db.func(slot, "orcprogram-mmx")
        from x86guard import Backend
        rows = set()
        seen = set()
        st_ = [f]
        while st_:
            g = st_.pop()
            if (g.name, g.tu.base) in seen:
                continue
            seen.add((g.name, g.tu.base))
            for c in g.calls():
                if c.name and c.name.startswith("orc_x86_emit_cpuinsn") and c.args()[1].v == db.enum("ORC_X86_emms"):
                    ok = True
                elif c.name and db.has_func(c.name) and len(seen) < 6:
                    st_.append(db.func(c.name))
    rep.check(ok, "D4-SKELETON", "orc/orcprogram-mmx.c", "mmx.clear_emms", "the MMX target's clear_emms slot is %s and emits emms" % slot,
              "the MMX target has no clear_emms implementation that emits emms (slot=%s): the x87 state is left in MMX mode" % slot)
    # vzeroupper before ret
    zu = [c for c in epi.calls() if c.name and c.name.startswith("orc_vex_emit") and c.args()[1].v == db.enum("ORC_X86_zeroupper_avx")]
    def rows_of(c):
        a = strip_casts(c.args()[1])
        if a.v is not None:
            return {a.v}
        if a.k == "ConditionalOperator":
            return {strip_casts(a.c[1]).v, strip_casts(a.c[2]).v}
        return set()
    ret = [c for c in epi.calls("orc_x86_emit_cpuinsn_none") if rows_of(c) & {db.enum("ORC_X86_ret"), db.enum("ORC_X86_retq")}]
    ok = bool(zu and ret)
    if ok:
        conds = [unparse(x[0]) for x in Facts(epi).conds(zu[0]) if x[0] != "switch"]
        ok = any("avx" in c for c in conds) and not epi.dominates(ret[0], zu[0]) and epi.pos(ret[0])[0] in epi.reachable_blocks(epi.pos(zu[0])[0])
    rep.check(ok, "D4-SKELETON", where(epi), "vzeroupper", "vzeroupper is emitted for the avx target before ret",
              "epilogue no longer emits vzeroupper before ret for the AVX target")
    # save/restore of vector registers: same amount, opposite sign
    sv = db.func("orc_x86_save_registers", "orcprogram-x86")
    rs = db.func("orc_x86_restore_registers", "orcprogram-x86")
    rep.saw(sv)
    rep.saw(rs)
    def by_row(f, callee, row, argi):
        return [unparse(c.args()[argi]) for c in f.calls(callee) if c.args()[1].v == db.enum(row)]
    amt_s = by_row(sv, "orc_x86_emit_cpuinsn_imm_reg", "ORC_X86_mov_imm32_r", 3)
    amt_r = by_row(rs, "orc_x86_emit_cpuinsn_imm_reg", "ORC_X86_mov_imm32_r", 3)
    sub = by_row(sv, "orc_x86_emit_cpuinsn_size", "ORC_X86_sub_r_rm", 4)
    add = by_row(rs, "orc_x86_emit_cpuinsn_size", "ORC_X86_add_r_rm", 4)
    rep.check(amt_s == amt_r and len(amt_s) == 1 and sub == ["X86_ESP"] and add == ["X86_ESP"], "D4-SKELETON", where(rs), "stack-adjust",
              "save subtracts and restore adds `%s` to the stack pointer" % (amt_s[0] if amt_s else "?"),
              "stack adjustment is not symmetric: save %s/%s, restore %s/%s" % (amt_s, sub, amt_r, add))


def _path_avoiding(f, start, avoid_ids, target_ids):
    """path from function entry through `start` (or just from entry) to any
    target call that passes none of the `avoid` calls after `start`, with
    constant propagation of boolean locals to prune correlated branches."""
    seen = set()
    st = [(f.entry, (), start is None)]
    steps = 0
    while st:
        b, envt, armed = st.pop()
        steps += 1
        if steps > 200000:
            raise AnalysisBroken("path explosion in " + f.name)
        env = dict(envt)
        blk = f.blocks[b]
        stop = False
        for e in blk.el:
            if start is not None and e is start:
                armed = True
                continue
            if armed and e.id in avoid_ids:
                stop = True
                break
            if armed and e.id in target_ids:
                return True
            if e.k == "BinaryOperator" and e.op == "=":
                l = strip_casts(e.c[0])
                if l is not None and l.k == "DeclRefExpr" and l.get("dk") == "local":
                    v = strip_casts(e.c[1]).v
                    if v is not None:
                        env[l.name] = v
                    else:
                        env.pop(l.name, None)
            elif e.k == "VarDecl" and e.c and e.c[0] is not None and strip_casts(e.c[0]).v is not None:
                env[e.name] = strip_casts(e.c[0]).v
        if stop:
            continue
        for idx, s in enumerate(blk.succs):
            if s is None:
                continue
            ek = f.edge_kind(b, idx)
            if blk.cond is not None and ek in (True, False):
                cn, pol = atom(blk.cond, ek)
                if cn is not None and cn.k == "DeclRefExpr" and cn.name in env and bool(env[cn.name]) != pol:
                    continue
            key = (s, tuple(sorted(env.items())), armed)
            if key in seen:
                continue
            seen.add(key)
            st.append((s, tuple(sorted(env.items())), armed))
    return None



def d6_used_recorded(db, rep):
    """D6: the prologue saves a callee-saved register only if compiler->used_regs[] says it is used, so every register the
    allocator hands out must end up recorded there.  Two designs satisfy this and both are accepted:
      (a) the allocator records the register on every successful return, or
      (b) some function records used_regs[X->F] for every field F that ever receives an allocator result."""
    from flow import reaching_defs
    al = db.func("orc_compiler_allocate_register", "orccompiler")
    rep.saw(al)

    def marks(f):
        out = []
        for x in f.walk():
            if x.k == "BinaryOperator" and x.op == "=" and strip_casts(x.c[0]) is not None and strip_casts(x.c[0]).k == "ArraySubscriptExpr":
                sub = strip_casts(x.c[0])
                if (access_path(sub.c[0]) or "").endswith("->used_regs") and strip_casts(x.c[1]) is not None and strip_casts(x.c[1]).v not in (0, None):
                    out.append((x, strip_casts(sub.c[1])))
        return out
    rets = [r for r in al.walk() if r.k == "ReturnStmt" and r.c and r.c[0] is not None and strip_casts(r.c[0]).v is None]
    if not rets:
        raise AnalysisBroken("orc_compiler_allocate_register: no successful return found")
    amarks = marks(al)
    uncovered = []
    for r in rets:
        nm = access_path(strip_casts(r.c[0]))
        if not any(access_path(ix) == nm and al.dominates(st, r) for st, ix in amarks):
            uncovered.append(r)
    if not uncovered:
        rep.ok("D6-USED-RECORDED", where(al), "at-hand-out", "all %d successful returns of the allocator are preceded by used_regs[reg] = 1" % len(rets))
        return
    # design (b): every sink field is marked somewhere
    sinks = {}
    marked = set()
    for f in db.all_functions():
        if not f.relfile.startswith("orc/"):
            continue
        for st, ix in marks(f):
            if ix is not None and ix.k == "MemberExpr":
                marked.add(ix.name)
        for c in f.calls("orc_compiler_allocate_register"):
            p = c.parent
            while p is not None and p.k in ("CStyleCastExpr", "ParenExpr", "ImplicitCastExpr"):
                p = p.parent
            if p is None or not (p.k == "BinaryOperator" and p.op == "=") and p.k != "VarDecl":
                continue
            l = strip_casts(p.c[0]) if p.k == "BinaryOperator" else None
            if l is not None and l.k == "MemberExpr":
                sinks.setdefault(l.name, (f, c))
            else:
                nm = l.name if l is not None and l.k == "DeclRefExpr" else (p.name if p.k == "VarDecl" else None)
                for x in f.walk():          # a local result: the fields it is copied to
                    if nm and x.k == "BinaryOperator" and x.op == "=" and access_path(x.c[1]) == nm and strip_casts(x.c[0]).k == "MemberExpr":
                        sinks.setdefault(strip_casts(x.c[0]).name, (f, c))
    if len(sinks) < 5:
        raise AnalysisBroken("only %d destinations of allocator results found" % len(sinks))
    missing = sorted(k for k in sinks if k not in marked)
    f0, c0 = sinks[missing[0]] if missing else (al, rets[0])
    rep.check(not missing, "D6-USED-RECORDED", where(f0), "derived-marking",
              "the allocator does not record hand-outs itself; used_regs[] is derived afterwards and covers all %d destinations of allocator results (%s)" % (len(sinks), ", ".join(sorted(sinks))),
              "orc_compiler_allocate_register returns a register without recording it in used_regs[] (line %s), and the code that derives used_regs[] afterwards "
              "never marks the register kept in `%s` (assigned from the allocator in %s): if that is a callee-saved register the prologue does not save it and the "
              "caller's value is destroyed" % (uncovered[0].line, "`, `".join(missing), f0.name), line=c0.line)


def emitted_branch_pairs(db, rep, rule="D5-EMITTED-BRANCH"):
    """orc_x86_compile emits its program in C-control-flow order.  A branch emitted BEFORE one of the paired events
    (save_registers, set_mxcsr, restore_mxcsr, restore_registers) whose label is emitted AFTER it (or the reverse) makes the
    generated code skip that half of the pair while still running the other half - e.g. ldmxcsr from an executor slot that
    this call never wrote (shared with C17: the thread's float mode then depends on what an earlier call left there)."""
    xc = db.func("orc_x86_compile", "orcprogram-x86")
    def order(a, b):
        """'before' if a is emitted before b on every C path that emits both, 'after', or None (unordered)."""
        pa, pb = xc.pos(a), xc.pos(b)
        if pa is None or pb is None:
            return None
        if pa[0] == pb[0]:
            return "before" if pa[1] < pb[1] else "after"
        ab = pb[0] in xc.reachable_blocks(pa[0])
        ba = pa[0] in xc.reachable_blocks(pb[0])
        if ab and not ba:
            return "before"
        if ba and not ab:
            return "after"
        return None
    events = []
    for nm in ("orc_x86_save_registers", "orc_x86_set_mxcsr", "orc_x86_restore_mxcsr", "orc_x86_restore_registers"):
        for c in xc.calls(nm):
            events.append((nm, c))
    branches = [(c, unparse(c.args()[2])) for c in xc.calls("orc_x86_emit_cpuinsn_branch")]
    labels = {}
    for c in xc.calls("orc_x86_emit_cpuinsn_label"):
        labels.setdefault(unparse(c.args()[2]), []).append(c)
    if len(branches) < 5 or len(labels) < 5 or len(events) < 2:      # a missing half of a pair is D4's finding, not an anchor failure
        raise AnalysisBroken("orc_x86_compile: %d branches, %d labels, %d paired events found" % (len(branches), len(labels), len(events)))
    for j, lab in branches:
        tg = labels.get(lab)
        if not tg:
            continue            # label emitted by a helper (e.g. the inner loop emitter): not judged here
        bad = []
        for l in tg:
            for nm, e in events:
                oj, ol = order(j, e), order(l, e)
                if oj and ol and oj != ol:
                    bad.append("%s (branch emitted %s it, label %s it)" % (nm.replace("orc_x86_", ""), oj, ol))
        rep.check(not bad, rule, where(xc), "branch->%s" % lab,
                  "branch and its label lie on the same side of every save/restore event",
                  "the generated branch to %s crosses %s: the generated code skips one half of the pair and still runs the other "
                  "(e.g. ldmxcsr from a slot that was never written, or an unbalanced stack adjustment)" % (lab, "; ".join(sorted(set(bad)))), line=j.line)


def d11_emms_hook_unconditional(db, rep, rule="D11-EMMS-HOOK"):
    """"An empty x87/MMX register state on return": MMX registers ARE the x87 registers, on x86-64 as on i386 (long double
    arithmetic is x87 in both ABIs).  D4 checks that the skeleton calls the target's clear_emms hook on every path; the hook
    itself must then emit `emms` on every path from its entry to its exit - no mode, flag or word size excuses it."""
    from flow import path_to
    tu = db.tu("orcprogram-mmx")
    emms = db.enum("ORC_X86_emms")

    def is_emms(e):
        return e.k == "CallExpr" and e.name and (e.name == "orc_x86_emit_emms" or (e.name.startswith("orc_x86_emit_cpuinsn") and len(e.args()) > 1 and
                                                                                   strip_casts(e.args()[1]) is not None and strip_casts(e.args()[1]).v == emms))
    hooks = [f for f in tu.main_functions() if "emms" in f.name]
    if not hooks:
        raise AnalysisBroken("no emms hook found in orcprogram-mmx.c")
    n = 0
    for f in hooks:
        emits = [c for c in f.calls() if is_emms(c)]
        if not emits:
            continue
        n += 1
        rep.saw(f)
        # a path from the entry to the function exit that passes no emms
        seen, stack, wit = set(), [f.entry], None
        while stack:
            b = stack.pop()
            if b in seen:
                continue
            seen.add(b)
            blk = f.blocks[b]
            if any(is_emms(e) for e in blk.el):
                continue
            if b == f.exit:
                wit = b
                break
            stack.extend(s_ for s_ in blk.succs if s_ is not None)
        rep.check(wit is None, rule, where(f), f.name, "the emms hook emits emms on every path",
                  "%s can return without emitting `emms`: code generated for the mmx target then returns with the x87 tag word in use, and the caller's next "
                  "x87 operation (long double arithmetic, also on x86-64) yields NaN" % f.name, line=f.line)
    if n < 1:
        raise AnalysisBroken("no function of orcprogram-mmx.c emits emms any more")
    return n
