"""C20 — application-registered opcodes and rules behave like built-in ones (structural part).

  D1 rule slot index and rule array size come from the same opcode set; -1 rejected
  D2 newest rule set first, required flags respected, first rule with an emitter wins
  D3 emulation dispatches through the instruction's own opcode; "sys" is assumed only by
     the serialiser / parser / registration code, never on the compile or run path
  D4 built-in opcodes win name lookup: sets searched in registration order, "sys" first
  D5 no long-lived pointer into the realloc'ed opcode-set array
"""
from facts import init_rows, Locals, AnalysisBroken, access_path, strip_casts, unparse
from flow import Facts
from rules_common import where, returned_constants, is_null_test


def d2(db, rep, rule="D2-NEWEST-FIRST"):
    """rule lookup: newest rule set first, a set is eligible exactly when all its required flags are present, the first
    rule with an emitter wins, and every registration takes a fresh last slot.  (C11's R-GUARD rests on this.)"""
    gr = db.func("orc_target_get_rule", "orctarget")
    fc = Facts(gr)
    # ---- D2 ------------------------------------------------------------------
    loops = [n for n in gr.walk() if n.k == "ForStmt"]
    if len(loops) != 1:
        raise AnalysisBroken("orc_target_get_rule: expected one search loop")
    lp = loops[0]
    from loops import counted
    cl = counted(lp)
    TG = gr.params[0]["name"]
    ok = cl is not None and cl["dir"] == "desc" and cl["first"] == ("%s->n_rule_sets" % TG, -1) and cl["last"] == (None, 0)
    rep.check(ok, rule, where(gr), "search-order",
              "rule sets searched from the newest (n_rule_sets-1) down to 0",
              "search loop is `for (%s; %s; %s)` (%s): a rule set registered later no longer takes precedence" %
              (unparse(lp.c[0]), unparse(lp.c[1]), unparse(lp.c[2]), cl), line=lp.line)
    rets = [r for r in gr.walk() if r.k == "ReturnStmt" and r.c and r.c[0] is not None and strip_casts(r.c[0]).v is None]
    if not rets:
        raise AnalysisBroken("orc_target_get_rule: no non-constant return")
    from exprval import admitted
    from exprval import variables
    want = {(r_, f_) for r_ in range(8) for f_ in range(8) if (r_ & ~f_) == 0}
    for r in rets:
        conds = fc.conds(r)
        # the rule comes from a rule set of the opcode's OWN opcode set: rule sets are arrays indexed by the position of an opcode in
        # its set, so a set made for another opcode set holds the rule of some other opcode at that position
        own = False
        for x in conds:
            if x[0] == "switch":
                continue
            e = strip_casts(x[0])
            if e.k == "BinaryOperator" and e.op in ("==", "!=") and all(unparse(strip_casts(y)).endswith("opcode_major") for y in e.c[:2]) and (x[1] is True) == (e.op == "=="):
                own = True
        rep.check(own, rule, where(gr), "rule-set-of-own-opcode-set@%s" % r.line,
                  "a rule is returned only from a rule set whose opcode_major is that of the opcode's set",
                  "orc_target_get_rule can return a rule from a rule set that belongs to ANOTHER opcode set (no opcode_major comparison dominates the return "
                  "at line %s): an opcode without a rule on this target - an application opcode, say - is then compiled with the rule that sits at the same "
                  "index in the built-in sets, and wrong native code runs instead of the emulation fallback" % r.line, line=r.line)
        from flow import single_defs
        _sd = single_defs(gr)
        res = lambda nm: _sd.get(nm)
        allv = set()
        for x in conds:
            if x[0] != "switch":
                allv |= variables(x[0], res)
        # the two quantities are recognised by the field / parameter they denote, however they are reached
        reqs = sorted(v for v in allv if v.endswith("required_target_flags"))
        flgs = sorted(v for v in allv if v.endswith("target_flags") and not v.endswith("required_target_flags"))
        REQ, FLG = (reqs + ["?req"])[0], (flgs + ["?flags"])[0]
        got, rel = admitted(conds, (REQ, FLG), range(8), res)
        rel = [x for x in rel if variables(x[0], res) & {REQ, FLG}]
        if len(reqs) > 1 or len(flgs) > 1:
            raise AnalysisBroken("orc_target_get_rule: several flag words in the guards: %s %s" % (reqs, flgs))
        if not rel:
            got = {(a, b) for a in range(8) for b in range(8)}
        if False:
            raise AnalysisBroken("orc_target_get_rule: no fact about %s / %s reaches `return rule` (renamed?)" % (REQ, FLG))
        extra = sorted(got - want)
        missing = sorted(want - got)
        rep.check(not extra, rule, where(gr), "return-rule:all-required-flags",
                  "a rule is returned only when every required flag of its set is present (guard equivalent to required & ~flags == 0 over all 3-bit masks)",
                  "a rule can be returned although a required flag is missing, e.g. required=%s flags=%s (guards: %s)" %
                  (bin(extra[0][0]) if extra else "", bin(extra[0][1]) if extra else "", [unparse(x[0]) + ("" if x[1] else " [false]") for x in rel]), line=r.line)
        rep.check(not missing, rule, where(gr), "return-rule:no-valid-set-skipped",
                  "no rule set whose required flags are all present is skipped",
                  "a rule set is skipped although all its required flags are present, e.g. required=%s flags=%s (guards: %s)" %
                  (bin(missing[0][0]) if missing else "", bin(missing[0][1]) if missing else "", [unparse(x[0]) + ("" if x[1] else " [false]") for x in rel]), line=r.line)
        emit_ok = any(x[0] != "switch" and unparse(x[0]) == "rule->emit" and x[1] is True for x in conds) or \
            any(x[0] != "switch" and "rule->emit" in unparse(x[0]) and "NULL" not in unparse(x[0]) and x[1] is True for x in conds) or \
            any(x[0] != "switch" and strip_casts(x[0]).k == "BinaryOperator" and strip_casts(x[0]).op == "!=" and "rule->emit" in unparse(x[0]) and x[1] is True for x in conds)
        rep.check(emit_ok, rule, where(gr), "return-rule:has-emitter", "a rule is returned only if it has an emitter",
                  "rule returned without its emit pointer having been tested", line=r.line)

    # ---- D2b: every registration takes a new, last slot -----------------------------------------
    # "A rule set registered later takes precedence" holds because the search runs from the last slot down AND a later
    # registration always lands in a later slot: every non-NULL return of orc_rule_set_new must hand out
    # rule_sets + n_rule_sets of the count that is incremented on the way to the return.
    rsn = db.func("orc_rule_set_new", "orcrule")
    TG2 = [p_["name"] for p_ in rsn.params if "OrcTarget" in p_.get("ty", "")]
    if len(TG2) != 1:
        raise AnalysisBroken("orc_rule_set_new: target parameter not identified")
    TG2 = TG2[0]
    incs = [n for n in rsn.walk() if (n.k == "UnaryOperator" and n.op == "++" and access_path(n.c[0]) == "%s->n_rule_sets" % TG2) or
            (n.k == "CompoundAssignOperator" and n.op == "+=" and access_path(n.c[0]) == "%s->n_rule_sets" % TG2 and strip_casts(n.c[1]).v == 1)]
    nret = 0
    for r in rsn.walk():
        if r.k != "ReturnStmt" or not r.c or r.c[0] is None:
            continue
        e = strip_casts(r.c[0])
        if e.v == 0 or unparse(e) in ("(void *)0", "0"):
            continue
        nret += 1
        ok = False
        why = "returns `%s`" % unparse(e)
        if e.k == "DeclRefExpr":
            defs = [strip_casts(d.c[1]) for d in rsn.walk() if d.k == "BinaryOperator" and d.op == "=" and access_path(d.c[0]) == e.name]
            defs += [strip_casts(d.c[0]) for d in rsn.walk() if d.k == "VarDecl" and d.name == e.name and d.c and d.c[0] is not None]
            good = [d for d in defs if d is not None and d.k == "BinaryOperator" and d.op == "+" and access_path(d.c[0]) == "%s->rule_sets" % TG2 and
                    access_path(d.c[1]) == "%s->n_rule_sets" % TG2]
            other = [d for d in defs if d not in good]
            ok = bool(good) and not other and any(rsn.dominates(i_, r) for i_ in incs)
            why = "`%s` is defined as %s; increment of n_rule_sets dominating the return: %s" % (e.name, [unparse(d) for d in defs], any(rsn.dominates(i_, r) for i_ in incs))
        rep.check(ok, rule, where(rsn), "new-slot", "a registration always takes the slot after the last one",
                  "orc_rule_set_new can hand out something other than a fresh last slot (%s): a rule set registered later then sits BELOW "
                  "earlier ones in the search order and no longer takes precedence" % why, line=r.line)
    if nret < 1:
        raise AnalysisBroken("orc_rule_set_new: no non-NULL return")



def run(ctx):
    db = ctx.db()
    rep = ctx.report
    rep.explanation = (
        "Structure of the extension mechanism: in orc_target_get_rule the slot index comes from the opcode's own set and is used only "
        "with rule sets of that set's major, whose rules array orc_rule_set_new sizes by the same set; orc_rule_register rejects the -1 "
        "of an unknown name; the search runs from the newest rule set down, skips a set exactly when a required flag is missing and "
        "returns the first rule with an emitter; emulation takes emulateN from the instruction's opcode and no compile/run-path function "
        "looks opcodes up in the \"sys\" set; name lookup walks sets in registration order and \"sys\" is registered first in orc_init; no "
        "persistent structure keeps a pointer into the opcode-set array that orc_opcode_register_static reallocates. Results of programs "
        "mixing built-in and extension opcodes are NOT decided.")
    gr = db.func("orc_target_get_rule", "orctarget")
    rep.saw(gr)
    sd = {}
    for n in gr.walk():
        if n.k == "BinaryOperator" and n.op == "=" and strip_casts(n.c[0]).k == "DeclRefExpr":
            sd.setdefault(strip_casts(n.c[0]).name, []).append(strip_casts(n.c[1]))
    # ---- D1 ------------------------------------------------------------------
    L = Locals(gr)
    OPC = [n for n, t in L.decls[:len(gr.params)] if "OrcStaticOpcode" in t]
    if len(OPC) != 1:
        raise AnalysisBroken("orc_target_get_rule: opcode parameter not identified")
    OPC = OPC[0]
    OSET = L.one("OrcOpcodeSet *", "the opcode's own set")
    # the slot index: the variable added to / subscripting a `rules` member
    uses = []
    for n in gr.walk():
        if n.k == "BinaryOperator" and n.op == "+" and strip_casts(n.c[0]) is not None and strip_casts(n.c[0]).k == "MemberExpr" and strip_casts(n.c[0]).name == "rules":
            uses.append((n, strip_casts(n.c[1])))
        if n.k == "ArraySubscriptExpr" and strip_casts(n.c[0]) is not None and strip_casts(n.c[0]).k == "MemberExpr" and strip_casts(n.c[0]).name == "rules":
            uses.append((n, strip_casts(n.c[1])))
    if not uses or any(ix is None or ix.k != "DeclRefExpr" for _, ix in uses) or len({ix.name for _, ix in uses}) != 1:
        raise AnalysisBroken("orc_target_get_rule: use of the slot index not found")
    J = uses[0][1].name
    os_def = sd.get(OSET, [])
    j_def = sd.get(J, [])
    ok = len(os_def) == 1 and os_def[0].k == "CallExpr" and os_def[0].name == "orc_opcode_set_find_by_opcode" and unparse(os_def[0].args()[0]) == OPC
    # the slot index is the opcode's position in ITS OWN set: by name lookup in that set, or by pointer difference from that set's array
    by_name = len(j_def) == 1 and j_def[0].k == "CallExpr" and j_def[0].name == "orc_opcode_set_find_by_name" and \
        unparse(j_def[0].args()[0]) == OSET and unparse(j_def[0].args()[1]) == "%s->name" % OPC
    by_diff = len(j_def) == 1 and j_def[0].k == "BinaryOperator" and j_def[0].op == "-" and unparse(strip_casts(j_def[0].c[0])) == OPC and \
        unparse(strip_casts(j_def[0].c[1])) == "%s->opcodes" % OSET
    ok = ok and (by_name or by_diff)
    rep.check(ok, "D1-SAME-SET", where(gr), "index-source", "slot index j is the opcode's position in the set returned by find_by_opcode(opcode)",
              "slot index is no longer computed in the opcode's own set: opcode_set=%s j=%s" % ([unparse(x) for x in os_def], [unparse(x) for x in j_def]))
    fc = Facts(gr)
    uses = [u for u, _ in uses]
    for u in uses:
        conds = [(unparse(x[0]), x[1]) for x in fc.conds(u) if x[0] != "switch"]
        ok = False
        for x in fc.conds(u):
            if x[0] == "switch":
                continue
            e = strip_casts(x[0])
            if e.k == "BinaryOperator" and e.op in ("!=", "==") and (x[1] is False) == (e.op == "!="):
                sides = sorted(unparse(strip_casts(y)) for y in e.c)
                if "%s->opcode_major" % OSET in sides and any(t.endswith("opcode_major") and not t.startswith(OSET + "->") for t in sides):
                    ok = True
        rep.check(ok, "D1-SAME-SET", where(gr), "major-filter", "index used only with rule sets of the same opcode major",
                  "rules[j] is read from a rule set whose opcode_major was not compared with the opcode's set (facts: %s)" % conds, line=u.line)
    rs = db.func("orc_rule_set_new", "orcrule")
    rep.saw(rs)
    size_ok = any(c.name in ("orc_malloc", "malloc", "calloc") and "opcode_set->n_opcodes" in unparse(c) for c in rs.calls())
    major_ok = any(n.k == "BinaryOperator" and n.op == "=" and unparse(n.c[0]) == "rule_set->opcode_major" and unparse(n.c[1]) == "opcode_set->opcode_major" for n in rs.walk())
    rep.check(size_ok and major_ok, "D1-SAME-SET", where(rs), "rules-size", "rules[] sized by opcode_set->n_opcodes of the set whose major is recorded",
              "orc_rule_set_new no longer sizes rules[] by the n_opcodes of the set whose major it stores")
    rr = db.func("orc_rule_register", "orcrule")
    rep.saw(rr)
    fcr = Facts(rr)
    fb = db.func("orc_opcode_set_find_by_name", "orcopcode")
    sent = sorted(v for v in returned_constants(fb) if v < 0)
    idx_uses = [n for n in rr.walk() if n.k == "ArraySubscriptExpr" and unparse(n.c[1]) == "i" and "rules" in unparse(n.c[0])]
    if not idx_uses:
        raise AnalysisBroken("orc_rule_register: rules[i] not found")
    for u in idx_uses:
        conds = fcr.conds(u)
        ok = all(any(c[0] != "switch" and is_null_test(c[0], c[1], "i", s) for c in conds) for s in sent)
        rep.check(ok, "D1-SAME-SET", where(rr), "sentinel", "the %s of an unknown opcode name is rejected before rules[i] is written" % sent,
                  "orc_rule_register writes rules[i] without testing the failure value %s of orc_opcode_set_find_by_name" % sent, line=u.line)
    src_ok = any(c.name == "orc_opcode_set_get_nth" and unparse(c.args()[0]) == "rule_set->opcode_major" for c in rr.calls())
    rep.check(src_ok, "D1-SAME-SET", where(rr), "register-index-set", "index looked up in the set named by rule_set->opcode_major",
              "orc_rule_register looks the name up in a set other than the rule set's own")

    d2(db, rep)

    # ---- D6: a set registered under a name is found under that name ------------------------------------
    # orc_opcode_set_get compares the stored prefix with strcmp.  The copy made at registration must keep every
    # character the prefix array has room for: strncpy (dst, src, sizeof dst - 1) keeps sizeof-1 characters,
    # snprintf (dst, n, "%s", src) keeps n-1; anything that keeps fewer truncates names the array could hold.
    rg = db.func("orc_opcode_register_static", "orcopcode")
    rec = db.record("OrcOpcodeSet")
    plen = [f_.get("alen") for f_ in rec["fields"] if f_["name"] == "prefix"]
    if not plen or not plen[0]:
        raise AnalysisBroken("OrcOpcodeSet.prefix: array length not found")
    cap = None
    for c in rg.calls():
        if c.name in ("strncpy", "snprintf", "strcpy", "memcpy", "sprintf") and (access_path(c.args()[0]) or "").endswith(".prefix"):
            if c.name == "strncpy":
                cap = strip_casts(c.args()[2]).v
            elif c.name == "snprintf":
                nv = strip_casts(c.args()[1]).v
                cap = None if nv is None else nv - 1
            elif c.name == "memcpy":
                cap = strip_casts(c.args()[2]).v
            else:
                cap = 10 ** 9          # unbounded copy: a memory-safety matter (C05), not a truncation
            site = c
    if cap is None:
        raise AnalysisBroken("orc_opcode_register_static: copy into OrcOpcodeSet.prefix not recognised")
    rep.check(cap >= plen[0] - 1, "D6-PREFIX-CAPACITY", where(rg), "prefix-copy",
              "the registration keeps all %d characters the prefix array has room for" % (plen[0] - 1),
              "orc_opcode_register_static keeps only %s characters of the set name although OrcOpcodeSet.prefix holds %d: a set registered under a "
              "%d-character name is not found by orc_opcode_set_get, so its rules can never be attached" % (cap, plen[0] - 1, plen[0] - 1), line=site.line)

    # ---- D6b: a set is found by its whole name ------------------------------------------------------
    sg = db.func("orc_opcode_set_get", "orcopcode")
    fsg = Facts(sg)
    rets6 = [r for r in sg.walk() if r.k == "ReturnStmt" and r.c and r.c[0] is not None and strip_casts(r.c[0]).v is None and unparse(strip_casts(r.c[0])) not in ("(void *)0",)]
    if not rets6:
        raise AnalysisBroken("orc_opcode_set_get: no non-NULL return")
    NM = sg.params[0]["name"]
    for r in rets6:
        exact = False
        how = []
        for x in fsg.conds(r):
            if x[0] == "switch":
                continue
            e = strip_casts(x[0])
            if e.k == "CallExpr" and e.name in ("strcmp", "strncmp", "strcasecmp", "memcmp"):
                how.append(e.name)
                whole = e.name == "strcmp" or (e.name == "strncmp" and len(e.args()) > 2 and strip_casts(e.args()[2]).v == plen[0] - 1)
                # strncmp over the whole field (its length minus the terminator) is as exact as the stored key allows: names up to that
                # length are compared completely (the stored prefix is NUL-terminated inside the field), longer ones by what was kept
                if whole and x[1] is False and any(unparse(strip_casts(a)) == NM for a in e.args()[:2]) and \
                        any(unparse(strip_casts(a)).endswith(".prefix") or unparse(strip_casts(a)).endswith("->prefix") for a in e.args()[:2]):
                    exact = True
        rep.check(exact, "D6-PREFIX-CAPACITY", where(sg), "lookup-is-exact",
                  "a set is returned only when strcmp (prefix, name) == 0",
                  "orc_opcode_set_get returns a set without an exact comparison of the whole name (comparisons on the path: %s): a set whose name is a "
                  "prefix of the requested one (or the built-in \"sys\") is handed out instead, and the application's rules are attached to the wrong set" % how, line=r.line)

    # ---- D3 ------------------------------------------------------------------
    ee = db.func("orc_executor_emulate", "orcexecutor")
    src = [unparse(n.c[1]) for n in ee.walk() if n.k == "BinaryOperator" and n.op == "=" and unparse(n.c[0]).endswith(".emulateN")]
    rep.check(src in (["opcode->emulateN"], ["insn->opcode->emulateN"]), "D3-DISPATCH", where(ee), "emulateN-source",
              "emulation uses the emulateN of the instruction's own opcode", "emulateN is taken from %s" % src)
    # A lookup restricted to the built-in set is harmless exactly when the name looked up is one of the built-in opcodes'
    # own names (the implicit loadX/storeX ...); it breaks registered sets when the name can come from a program.
    builtin = {r["name"] for r in init_rows(db.tu("orcopcodes-sys").global_("opcodes")) if isinstance(r, dict) and r.get("name")}
    REGISTRATION = lambda g: g.name.endswith("_register_rules") or g.name.endswith("_init") or "register" in g.name
    nsys = 0

    def names_ok(g, name_expr, depth=0):
        """the name passed to a sys-only lookup is always a literal naming a built-in opcode"""
        e = strip_casts(name_expr)
        if e is None:
            return False
        if e.k == "StringLiteral":
            return e.get("str") in builtin
        if e.k == "DeclRefExpr" and e.get("dk") == "param" and depth < 3:
            idx = [i for i, pr in enumerate(g.params) if pr["name"] == e.name]
            callers = db.callers().get(g.name, [])
            return bool(idx) and bool(callers) and all(names_ok(cf, cc.args()[idx[0]], depth + 1) for cf, cc in callers if len(cc.args()) > idx[0])
        return False
    for f in db.all_functions():
        if not f.relfile.startswith("orc/"):
            continue
        for c in f.calls("orc_opcode_set_get"):
            lit = strip_casts(c.args()[0])
            if lit.get("str") != "sys":
                continue
            nsys += 1
            if REGISTRATION(f):
                rep.ok("D3-DISPATCH", where(f), "uses-sys-set", "\"sys\" looked up by registration code (attaches rules to the built-in set)")
                continue
            # every name looked up in that set by this function
            lookups = [x for x in f.calls("orc_opcode_set_find_by_name")]
            bad = [x for x in lookups if not names_ok(f, x.args()[1])]
            # "built-in set first, then every set" is not a restriction: the same name also goes to the all-sets lookup
            if bad and all(any(unparse(strip_casts(y.args()[0])) == unparse(strip_casts(x.args()[1])) for y in f.calls("orc_opcode_find_by_name") if y.args()) for x in bad):
                bad = []
            indexed = [x for x in f.walk() if x.k == "ArraySubscriptExpr" and (access_path(x.c[0]) or "").endswith("->opcodes") and strip_casts(x.c[1]).v is None
                       and not lookups]
            # the bytecode format can only number opcodes of the built-in table (format limitation, C13); a TEXT program names its
            # opcodes, so the parser has no such excuse
            serialiser = f.name.startswith("orc_bytecode_")
            ok = not bad and (bool(lookups) or serialiser)
            rep.check(ok, "D3-DISPATCH", where(f), "uses-sys-set",
                      "\"sys\" lookups in %s concern built-in opcode names only (%d lookups)" % (f.name, len(lookups)),
                      "%s restricts an opcode lookup to the \"sys\" set for a name that need not be a built-in opcode (`%s`): opcodes of "
                      "application-registered sets are then not found on this path" % (f.name, unparse(bad[0].args()[1])[:40] if bad else "set used without a by-name lookup"), line=c.line)
    if nsys < 8:
        raise AnalysisBroken("only %d lookups of the sys set found" % nsys)
    for f in db.all_functions():
        if f.name.startswith(("orc_compiler_", "orc_executor_")) or f.name in ("orc_target_get_rule", "orc_program_compile_full"):
            for c in f.calls("orc_opcode_set_get_nth"):
                if strip_casts(c.args()[0]).v is not None:
                    rep.violation("D3-DISPATCH", where(f), "get_nth(const)", "opcode set selected by a constant index on the compile/run path", line=c.line)

    d7_no_cached_interior_pointer(db, rep)
    d8_every_insn_dispatched(db, rep)
    d9_all_operand_slots(db, rep)
    d10_set_key_agrees(db, rep)
    d11_rule_lookup_fresh(db, rep)
    d12_emulate_request_honoured(db, rep)
    d13_staged_scalar_identity(db, rep)
    # "a rule set registered later ... takes precedence": also for a program that was compiled before - every compile request
    # really compiles (shared with C19 D10)
    __import__("importlib").import_module("rules.c19").request_reaches_compiler(db, rep, "D14-EVERY-COMPILE-COMPILES")

    # ---- D4 ------------------------------------------------------------------
    d4_builtin_first(db, rep)
    d15_c_emit_unrolled(db, rep)

    # ---- D5 ------------------------------------------------------------------
    n5 = 0
    for t in db.tus.values():
        for rn, r in t.records.items():
            for fld in r["fields"]:
                if "OrcOpcodeSet *" in fld["ty"] or "struct _OrcOpcodeSet *" in fld["ty"]:
                    n5 += 1
                    ok = rn.lstrip("_") in ("OrcParser",)
                    rep.check(ok, "D5-NO-STALE-SET-POINTER", r.get("file", ""), "%s.%s" % (rn, fld["name"]),
                              "OrcOpcodeSet pointer kept only in the stack-allocated parser (scope of one parse)",
                              "%s.%s keeps an OrcOpcodeSet pointer; orc_opcode_register_static reallocates that array, leaving it dangling" % (rn, fld["name"]))
        break
    seen = set()
    for t in db.tus.values():
        for g in t.globals:
            if ("OrcOpcodeSet *" in g["ty"]) and g["name"] not in seen:
                seen.add(g["name"])
                rep.check(g["name"] == "opcode_sets", "D5-NO-STALE-SET-POINTER", g["file"], "global:%s" % g["name"], "the array itself",
                          "global %s caches an OrcOpcodeSet pointer across registrations" % g["name"])
    rsrec = db.record("OrcRuleSet")
    rep.check(any(f["name"] == "opcode_major" and "int" in f["ty"] for f in rsrec["fields"]), "D5-NO-STALE-SET-POINTER", "orc/orcrule.h", "OrcRuleSet.opcode_major",
              "rule sets identify their opcode set by the integer major", "OrcRuleSet no longer identifies its opcode set by an integer major")


def d7_no_cached_interior_pointer(db, rep):
    """D7: the opcode-set table is a heap array that every registration reallocates.  Functions returning `table + i` /
    `&table[i]` hand out pointers that the next orc_opcode_register_static() may invalidate, so such a pointer must not be
    kept in storage that outlives the call (a static / global variable, a field of a longer-lived object): after a
    registration, built-in lookups through the kept pointer read freed memory."""
    tu = db.tu("orcopcode")
    grow = set()
    for f in tu.main_functions():
        for x in f.walk():
            if x.k == "BinaryOperator" and x.op == "=" and strip_casts(x.c[1]) is not None and strip_casts(x.c[1]).k == "CallExpr" \
                    and strip_casts(x.c[1]).name in ("realloc", "orc_realloc"):
                l = strip_casts(x.c[0])
                if l is not None and l.k == "DeclRefExpr" and l.get("dk") in ("global", "static_local"):
                    grow.add(l.name)
    if "opcode_sets" not in grow:
        raise AnalysisBroken("the opcode-set table is no longer a reallocated global (found: %s)" % sorted(grow))
    providers = {}
    for f in tu.main_functions():
        for r in f.walk():
            if r.k != "ReturnStmt" or not r.c or r.c[0] is None:
                continue
            e = strip_casts(r.c[0])
            base = None
            if e is not None and e.k == "BinaryOperator" and e.op == "+":
                base = strip_casts(e.c[0])
            elif e is not None and e.k == "UnaryOperator" and e.op == "&" and strip_casts(e.c[0]) is not None and strip_casts(e.c[0]).k == "ArraySubscriptExpr":
                base = strip_casts(strip_casts(e.c[0]).c[0])
            if base is not None and base.k == "DeclRefExpr" and base.name in grow:
                providers[f.name] = base.name
    if len(providers) < 2:
        raise AnalysisBroken("functions returning pointers into the opcode-set table: %s" % sorted(providers))
    n = 0
    for f in db.all_functions():
        if not (f.relfile.startswith("orc/") or f.relfile.startswith("tools/")):
            continue
        for c in f.calls():
            if c.name not in providers:
                continue
            n += 1
            p = c.parent
            while p is not None and p.k in ("CStyleCastExpr", "ParenExpr", "ImplicitCastExpr"):
                p = p.parent
            kept = None
            if p is not None and p.k == "VarDecl" and p.get("static"):
                kept = "the static variable `%s`" % p.name
            elif p is not None and p.k == "BinaryOperator" and p.op == "=" and any(y is c for y in p.c[1].walk()):
                l = strip_casts(p.c[0])
                if l is not None and l.k == "DeclRefExpr" and l.get("dk") in ("global", "static_local"):
                    kept = "the %s variable `%s`" % ("static" if l.get("dk") == "static_local" else "global", l.name)
                elif l is not None and l.k in ("MemberExpr", "ArraySubscriptExpr"):
                    root = l
                    while root is not None and root.k in ("MemberExpr", "ArraySubscriptExpr"):
                        root = strip_casts(root.c[0])
                    if root is None or root.k != "DeclRefExpr" or root.get("dk") != "local" or "*" in (root.ty or ""):
                        rec = ((root.ty if root is not None else "") or "").replace("const ", "").replace("*", "").replace("struct ", "").strip()
                        if not (rec and _only_automatic_instances(db, rec)):
                            kept = "`%s`" % unparse(l)[:40]
            rep.check(kept is None, "D7-NO-CACHED-SET", where(f), "%s@%s:%s" % (c.name, f.name, c.line),
                      "the pointer into the opcode-set table is used within the call only",
                      "%s keeps the result of %s() in %s; it points into `%s`, which orc_opcode_register_static() reallocates: after an application "
                      "registers an opcode set the kept pointer dangles and lookups of built-in opcodes read freed memory" %
                      (f.name, c.name, kept, providers[c.name]), line=c.line)
    if n < 8:
        raise AnalysisBroken("only %d calls of opcode-set providers found" % n)


_AUTO = {}


def _only_automatic_instances(db, rec):
    """objects of record type `rec` exist only as automatic (stack) variables: none is global/static, none is heap-allocated
    (no sizeof(rec) anywhere).  Such an object cannot outlive the call tree that created it."""
    if rec in _AUTO:
        return _AUTO[rec]
    names = {rec, "_" + rec, "struct _" + rec, "struct " + rec}
    ok, seen_local = True, False
    for t in db.tus.values():
        for g in t.globals:
            if (g.get("ty") or "").replace("const ", "").replace("static ", "").strip().rstrip("[]0123456789 ") in names:
                ok = False
    for f in db.all_functions():
        for x in f.walk():
            if x.k == "VarDecl" and (x.ty or "").replace("const ", "").strip() in names:
                if x.get("static"):
                    ok = False
                else:
                    seen_local = True
            elif x.k == "UnaryExprOrTypeTraitExpr" and (x.get("argty") or "") in names:
                ok = False
    _AUTO[rec] = ok and seen_local
    return _AUTO[rec]


def d8_every_insn_dispatched(db, rep):
    """D8: a back end's instruction loop hands every instruction to the rule that orc_target_get_rule chose for it - which may
    be an application's.  Whether an iteration ends without calling rule->emit (and without reporting an error) may only be
    decided by the compiler's own per-instruction marks (insn->flags: invariant / already emitted ...), never by the opcode's
    identity, its static flags or the register allocation: such a shortcut bakes the built-in meaning of an opcode into the
    back end and silently bypasses a registered rule.  Decision blocks are found on the CFG: a branch inside the loop body one
    successor of which can reach the next iteration avoiding emit/error while another cannot."""
    from exprval import variables
    n = 0
    for f in db.all_functions():
        if not f.relfile.startswith("orc/orcprogram-") and f.relfile != "orc/orccompiler.c":
            continue
        emits = [c for c in f.calls() if c.name is None and unparse(c.c[0]).replace(" ", "").endswith("rule->emit")]
        if not emits:
            continue
        for lp in [x for x in f.walk() if x.k == "ForStmt"]:
            inside = [c for c in emits if any(a is lp for a in c.ancestors())]
            if not inside or any(a.k == "ForStmt" and a is not lp and any(b is lp for b in a.ancestors()) for c in inside for a in c.ancestors()):
                continue
            inc = lp.c[2]
            if inc is None:
                continue
            incpos = f.pos(strip_casts(inc)) or next((f.pos(x) for x in inc.walk() if f.pos(x)), None)
            if incpos is None:
                raise AnalysisBroken("%s: increment of the instruction loop not found in the CFG" % f.name)
            body_ids = {x.id for x in lp.c[3].walk()} if lp.c[3] is not None else set()

            def settles(blk):
                return any((e.k == "CallExpr" and (e.id in {c.id for c in inside} or e.name == "orc_compiler_error")) or
                           (e.k == "BinaryOperator" and e.op == "=" and (access_path(e.c[0]) or "").endswith("->error") and strip_casts(e.c[1]).v) for e in blk.el)
            start = None
            for b, blk in f.blocks.items():
                if blk.cond is not None and lp.c[1] is not None and blk.cond.id in {x.id for x in lp.c[1].walk()}:
                    for i, sx in enumerate(blk.succs):
                        if sx is not None and f.edge_kind(b, i) is True:
                            start = sx
            if start is None:
                raise AnalysisBroken("%s: body of the instruction loop not found in the CFG" % f.name)
            BODY = set()
            st = [start]
            while st:
                b = st.pop()
                if b in BODY or b == incpos[0] or b == f.exit:
                    continue
                BODY.add(b)
                st.extend(sx for sx in f.blocks[b].succs if sx is not None)
            # A[b]: from the start of block b the increment can be reached without emit/error
            A = {incpos[0]: True}
            work = True
            while work:
                work = False
                for b in BODY:
                    blk = f.blocks[b]
                    if A.get(b) or settles(blk):
                        continue
                    if any(sx is not None and A.get(sx) for sx in blk.succs):
                        A[b] = True
                        work = True
            n += 1
            rep.saw(f)
            # R: blocks reachable from the loop condition's true edge before any emit/error and before the "there is no rule" branch
            def ruleish(cond):
                vs = variables(cond)
                return bool(vs) and all(v == "rule" or v.endswith("->rule") or v.endswith("->emit") or v.endswith("rule->emit") for v in vs)
            R = set()
            st = [start] if start is not None else []
            while st:
                b = st.pop()
                if b in R or b == incpos[0]:
                    continue
                blk = f.blocks[b]
                R.add(b)
                if settles(blk):
                    continue
                for i, sx in enumerate(blk.succs):
                    if sx is None:
                        continue
                    if blk.cond is not None and ruleish(blk.cond) and f.edge_kind(b, i) is False:
                        continue            # no rule to call: nothing to dispatch
                    st.append(sx)
            bad = []
            for b, blk in f.blocks.items():
                if b not in R or blk.cond is None or settles(blk) or ruleish(blk.cond):
                    continue
                ss = [s for s in blk.succs if s is not None]
                if len(ss) < 2 or not (any(A.get(s) for s in ss) and not all(A.get(s) for s in ss)):
                    continue
                vs = variables(blk.cond)
                if not vs or not all(v.endswith("->flags") and "opcode" not in v for v in vs):
                    bad.append((blk.cond.line, unparse(blk.cond)[:70]))
            rep.check(not bad, "D8-EVERY-INSN-DISPATCHED", where(f), "loop@%s" % lp.line,
                      "only insn->flags decides whether an instruction is passed over without calling its rule",
                      "%s can finish the iteration for an instruction without calling rule->emit and without an error, decided by `%s` (line %s): "
                      "that is not one of the compiler's per-instruction marks, so a rule an application registered for such an opcode is never run" %
                      (f.name, bad[0][1] if bad else "", bad[0][0] if bad else ""), line=bad[0][0] if bad else lp.line)
    if n < 5:
        raise AnalysisBroken("only %d instruction loops calling rule->emit found" % n)


def d9_all_operand_slots(db, rep, rule="D9-ALL-OPERAND-SLOTS", only=None):
    """D9: an application opcode may use every operand slot the opcode structure has - ORC_STATIC_OPCODE_N_SRC sources and
    ORC_STATIC_OPCODE_N_DEST destinations - whereas no built-in opcode has more than three sources, so a pass that stops
    early is invisible with built-in opcodes.  Every counted loop of the library that walks src_size[]/src_args[] (or
    dest_size[]/dest_args[]) with its induction variable, starting at slot 0, must run to the LAST slot of that array (the
    declared array length); a loop that starts later (e.g. `for (j = 1; ...)`) is a deliberate partial walk and is not judged."""
    from loops import counted
    NS, ND = db.macro_int("ORC_STATIC_OPCODE_N_SRC"), db.macro_int("ORC_STATIC_OPCODE_N_DEST")
    CAP = {"src_size": NS, "src_args": NS, "dest_size": ND, "dest_args": ND}
    n = 0
    for f in db.all_functions():
        if not f.relfile.startswith("orc/") or f.body is None or (only is not None and not only(f)):
            continue
        for lp in [x for x in f.walk() if x.k == "ForStmt"]:
            cl = counted(lp)
            if not cl or cl["dir"] != "asc" or cl["first"] != (None, 0) or cl["last"][0] is not None:
                continue
            body = lp.c[3]
            if body is None:
                continue
            arrays = set()
            for x in body.walk():
                if x.k == "ArraySubscriptExpr" and strip_casts(x.c[1]) is not None and strip_casts(x.c[1]).k == "DeclRefExpr" and strip_casts(x.c[1]).name == cl["var"]:
                    b = strip_casts(x.c[0])
                    if b is not None and b.k == "MemberExpr" and b.name in CAP:
                        # only when this loop is the innermost one over that variable
                        arrays.add(b.name)
            if not arrays:
                continue
            kinds = {a.split("_")[0] for a in arrays}
            if len(kinds) != 1:
                continue                    # walks sources and destinations with one index: bounded by the smaller table on purpose
            cap = CAP[sorted(arrays)[0]]
            n += 1
            rep.saw(f)
            last = cl["last"][1]
            rep.check(last == cap - 1, rule, where(f), "%s:%s[%s]@%s" % (f.name, "/".join(sorted(arrays)), cl["var"], lp.line),
                      "loop over %s visits slots 0..%d" % ("/".join(sorted(arrays)), cap - 1),
                      "%s walks %s with `%s` from 0 to %d, but the opcode structure has %d %s slots: operand %d of an application-registered opcode is never "
                      "looked at by this pass (its liveness is not tracked / its register can be reused while it is still needed); no built-in opcode has that "
                      "many, so nothing in the tree shows it" % (f.name, "/".join(sorted(arrays)), cl["var"], last, cap, "source" if "src" in kinds else "destination", last + 2),
                      line=lp.line)
    if n < 20:
        raise AnalysisBroken("only %d loops over the operand slot arrays found" % n)
    return n


def d10_set_key_agrees(db, rep, rule="D10-SET-KEY-AGREES"):
    """D10: an opcode set is found again under the prefix it was registered with.  orc_opcode_register_static stores the
    prefix with a bounded copy (the field is a small char array); a lookup that compares the caller's full name against the
    stored, possibly cut, prefix with an unbounded strcmp can never find a set registered under a longer name, and the NULL
    goes straight into orc_rule_set_new.  Where the store is bounded by K characters every comparison against that field must
    be bounded by at most K (or the registration must refuse longer names)."""
    tu = db.tu("orcopcode")
    reg = tu.fn.get("orc_opcode_register_static")
    if reg is None:
        raise AnalysisBroken("orc_opcode_register_static not found")
    rep.saw(reg)
    fld = db.field("OrcOpcodeSet", "prefix")
    cap = fld["size"] if fld else None
    stores = [c for c in reg.calls() if (c.name or "").replace("__builtin___", "").replace("_chk", "") in ("strncpy", "strcpy", "snprintf", "memcpy", "strlcpy")
              and c.args() and (access_path(strip_casts(c.args()[0])) or "").endswith(".prefix")]
    if not stores or cap is None:
        raise AnalysisBroken("the store of the set prefix in orc_opcode_register_static was not found")
    st = stores[0]
    nm = (st.name or "").replace("__builtin___", "").replace("_chk", "")
    bounded = nm in ("strncpy", "snprintf", "memcpy", "strlcpy")
    kept = cap - 1
    refuses = any(x.k == "CallExpr" and x.name == "strlen" for x in reg.walk()) and any(r.k == "ReturnStmt" for r in reg.walk() if reg.dominates(r, st) is False and r.line < st.line)
    n = 0
    for f in tu.main_functions():
        for c in f.calls():
            cn = (c.name or "").replace("__builtin_", "")
            if cn not in ("strcmp", "strncmp", "memcmp", "strcasecmp"):
                continue
            if not any((access_path(strip_casts(a)) or "").endswith(".prefix") for a in c.args()[:2]):
                continue
            n += 1
            rep.saw(f)
            lim = strip_casts(c.args()[2]).v if cn in ("strncmp", "memcmp") and len(c.args()) > 2 else None
            ok = (not bounded) or refuses or (lim is not None and lim <= kept)
            rep.check(ok, rule, where(f), "%s:%s" % (f.name, cn),
                      "the lookup compares at most the %d characters registration keeps" % kept,
                      "%s compares the whole name with the stored prefix (%s), but orc_opcode_register_static keeps only the first %d characters (%s into a "
                      "%d-byte field): a set registered as \"extension\" is stored as \"extensi\" and orc_opcode_set_get (\"extension\") returns NULL, which "
                      "orc_rule_set_new dereferences" % (f.name, cn, kept, nm, cap), line=c.line)
    if n < 1:
        raise AnalysisBroken("no comparison against OrcOpcodeSet.prefix found")
    return n


def d11_rule_lookup_fresh(db, rep, rule="D11-RULE-LOOKUP-FRESH"):
    """D11: "a rule set registered later for an existing opcode takes precedence".  Registration can happen at any time, so the
    rule an instruction is compiled with has to be looked up in the target's rule sets at EVERY compile: the value stored in
    insn->rule by orc_compiler_assign_rules must come from orc_target_get_rule - directly, or through helpers that keep no
    memory of earlier lookups (no static or global variable read or written on the way)."""
    tu = db.tu("orccompiler")
    f = tu.fn.get("orc_compiler_assign_rules")
    if f is None:
        raise AnalysisBroken("orc_compiler_assign_rules not found")
    rep.saw(f)
    stores = [x for x in f.walk() if x.k == "BinaryOperator" and x.op == "=" and (access_path(x.c[0]) or "").endswith("->rule")]
    if not stores:
        raise AnalysisBroken("orc_compiler_assign_rules: store to insn->rule not found")
    n = 0
    for x in stores:
        r = strip_casts(x.c[1])
        chain = []
        bad = None
        cur, host = r, f
        for _ in range(4):
            if cur is None or cur.k != "CallExpr":
                bad = "the stored value is `%s`, not the result of a lookup" % unparse(x.c[1])[:50]
                break
            if cur.name == "orc_target_get_rule":
                break
            g = host.tu.fn.get(cur.name or "")
            if g is None or g.body is None:
                bad = "the lookup goes through %s, whose body is not available" % cur.name
                break
            chain.append(g.name)
            memo = sorted({y.name for y in g.walk() if y.k == "DeclRefExpr" and y.get("dk") in ("global", "static_local")})
            if memo:
                bad = "the lookup goes through %s, which reads or writes process-wide state (%s): an answer given before a rule set was registered is " \
                      "given again afterwards" % (g.name, ", ".join(memo[:3]))
                break
            rets = [strip_casts(rr.c[0]) for rr in g.walk() if rr.k == "ReturnStmt" and rr.c and rr.c[0] is not None]
            calls = [c for c in g.calls("orc_target_get_rule")]
            if not calls:
                bad = "%s does not call orc_target_get_rule" % g.name
                break
            cur, host = calls[0], g
        n += 1
        rep.check(bad is None, rule, where(f), "insn->rule@%s" % x.line,
                  "insn->rule comes from orc_target_get_rule at every compile%s" % ((" (through %s)" % " -> ".join(chain)) if chain else ""),
                  "orc_compiler_assign_rules: %s. A rule set that the application registers for this opcode later is ignored by programs compiled afterwards" % bad, line=x.line)
    return n


def d12_emulate_request_honoured(db, rep, rule="D12-EMULATE-REQUEST-HONOURED"):
    """An application opcode has no C backup an application could have been compiled with: where native code is not to be used
    (ORC_CODE=emulate, no target) the program must run through the emulator, which calls the application's emulateN.  The entry
    point chosen when the compile starts is the program's backup function if it has one; the exit that orc_compiler_compile_program
    takes because emulation was REQUESTED must therefore store orc_executor_emulate into program->code_exec itself, on every path
    from that decision to the return - otherwise `using emulation` is reported while the backup function runs."""
    from flow import paths_avoiding
    f = db.func("orc_compiler_compile_program", "orccompiler")
    rep.saw(f)
    n = 0
    for b, blk in f.blocks.items():
        if blk.cond is None or "_orc_compiler_flag_emulate" not in unparse(blk.cond):
            continue
        txt = unparse(blk.cond)
        if "!" in txt.split("_orc_compiler_flag_emulate")[0][-3:]:
            continue
        n += 1

        def release(e):
            return e.k == "BinaryOperator" and e.op == "=" and (access_path(e.c[0]) or "").endswith("->code_exec") and "orc_executor_emulate" in unparse(e.c[1])

        def flt(bb, idx, b=b):
            return not (bb == b and f.edge_kind(bb, idx) is False)
        wit = paths_avoiding(f, blk.cond, release, edge_filter=flt)
        rep.check(wit is None, rule, where(f), "emulate-request@%s" % blk.cond.line, "the exit taken for ORC_CODE=emulate installs the emulator as entry point",
                  "orc_compiler_compile_program leaves through the `emulation requested` branch (condition at line %s) without storing orc_executor_emulate "
                  "into program->code_exec: the entry point stays what it was on entry - the backup function, if the program has one - so an application "
                  "opcode is run by a backup C function instead of the application's emulateN although `using emulation` is reported" % blk.cond.line,
                  line=blk.cond.line)
    if n < 1:
        raise AnalysisBroken("orc_compiler_compile_program: the test of _orc_compiler_flag_emulate was not found")
    return n


def d13_staged_scalar_identity(db, rep, rule="D13-APP-SCALAR-UNALTERED"):
    """"Programs using the new opcodes are emulated with the application's functions" - and those functions get the operands the
    program has.  orc_executor_emulate scales ONE kind of staged scalar by the x2/x4 shift: the element offset of the built-in
    loadoffX (lanes vs elements).  What an application opcode's scalar means is the application's business; the scaling must be
    tied to the identity of the opcode (its name or emulation function), not only to the flag pattern LOAD|SCALAR with two
    sources, which an application opcode can have as well - its emulateN would see 6 where the program says 3."""
    from flow import single_defs
    ee = db.func("orc_executor_emulate", "orcexecutor")
    rep.saw(ee)
    sd = single_defs(ee)
    n = 0
    for name, d in sorted(sd.items()):
        t = unparse(d)
        if "shift" not in t or "flags" not in t:
            continue
        cond = strip_casts(d)
        while cond is not None and cond.k == "ParenExpr":
            cond = strip_casts(cond.c[0])
        if cond is None or cond.k != "ConditionalOperator":
            continue
        n += 1
        ct = cond.c[0]
        ident = any((y.k == "CallExpr" and y.name in ("strcmp", "strncmp", "__builtin_strcmp", "__builtin_strncmp") and "name" in unparse(y)) or
                    (y.k == "MemberExpr" and y.name in ("emulateN", "emulate")) for y in ct.walk())
        rep.check(ident, rule, where(ee), "scale:%s" % name, "the lane scaling of a staged scalar is tied to the opcode's identity",
                  "orc_executor_emulate scales the staged scalar operand (`%s`) for every opcode with the flag pattern `%s`: an application opcode "
                  "registered with the same flags gets its parameter multiplied by 2 or 4 under x2/x4 before the application's emulateN sees it" %
                  (name, unparse(ct)[:90]), line=d.line)
    if n < 1:
        raise AnalysisBroken("orc_executor_emulate: the lane scaling of staged scalars was not found")
    return n


def d4_builtin_first(db, rep, rule="D4-BUILTIN-FIRST"):
    """A name the built-in ("sys") table has resolves to the built-in entry: the sets are searched in registration order, the first
    hit is returned, and sys is registered first.  (Shared with C13: the bytecode writer encodes an opcode as its index in the
    sys table, so a same-named entry of an application set winning the lookup is serialised as a wild index.)"""
    from loops import counted
    fn = db.func("orc_opcode_find_by_name", "orcopcode")
    rep.saw(fn)
    lps = [n for n in fn.walk() if n.k == "ForStmt"]
    cl4 = counted(lps[0]) if len(lps) == 1 else None
    ok = cl4 is not None and cl4["dir"] == "asc" and cl4["first"] == (None, 0) and cl4["last"] == ("n_opcode_sets", -1)
    rets = [r for r in fn.walk() if r.k == "ReturnStmt" and r.c and strip_casts(r.c[0]).v != 0]
    ok = ok and rets and all(any(a is lps[0] for a in r.ancestors()) for r in rets)
    rep.check(bool(ok), rule, where(fn), "lookup-order", "sets are searched in registration order and the first hit is returned",
              "orc_opcode_find_by_name no longer returns the first match in registration order")
    oi = db.func("orc_init", "orc")
    calls = [c for c in sorted(oi.calls(), key=lambda c: (c.line, c.id)) if c.name]
    first_reg = None
    from callgraph import CallGraph
    cg = CallGraph(db)
    for c in calls:
        reach = {f.name for f in cg.reachable([c.name])}
        if "orc_opcode_register_static" in reach:
            first_reg = c.name
            break
    rep.check(first_reg == "orc_opcode_init", rule, where(oi), "sys-registered-first",
              "the first call in orc_init that can register an opcode set is orc_opcode_init (the sys set)",
              "`%s` can register an opcode set before orc_opcode_init: built-in names no longer win the lookup" % first_reg)
    si = db.func("orc_opcode_sys_init", "orcopcodes-sys")
    ok = any(c.name == "orc_opcode_register_static" and strip_casts(c.args()[1]).get("str") == "sys" for c in si.calls())
    rep.check(ok, rule, where(si), "registers-sys", "orc_opcode_sys_init registers the table under the prefix \"sys\"", "the built-in table is no longer registered as \"sys\"")



def d15_c_emit_unrolled(db, rep, rule="D15-C-EMIT-UNROLLED"):
    """The C back end realises an x2/x4 instruction by calling the opcode's rule once per lane with compiler->unroll_index set to the
    lane.  Built-in rules that ignore the index hide a site that forgets this; an application's lane-wise rule does not.  Every
    `rule->emit (...)` in orc_compiler_c_assemble must therefore be governed by a test of the instruction's X2/X4 flags, and on
    the flagged side be preceded by a store of a non-constant lane number into compiler->unroll_index."""
    from flow import Facts
    f = db.func("orc_compiler_c_assemble", "orcprogram-c")
    rep.saw(f)
    X = db.macro_int("ORC_INSTRUCTION_FLAG_X2") | db.macro_int("ORC_INSTRUCTION_FLAG_X4")
    fc = Facts(f)
    stores = [e for e in f.walk() if e.k == "BinaryOperator" and e.op == "=" and (access_path(e.c[0]) or "").endswith("->unroll_index")]
    n = 0
    for c in f.walk():
        if c.k != "CallExpr" or c.name:
            continue
        cal = strip_casts(c.c[0]) if c.c else None
        if cal is None or cal.k != "MemberExpr" or cal.name != "emit":
            continue
        n += 1
        flagged = None
        for cd in fc.conds(c):
            if cd[0] == "switch":
                continue
            e = cd[0]
            if any(y.k == "BinaryOperator" and y.op == "&" and any((strip_casts(z) is not None and strip_casts(z).v is not None and strip_casts(z).v & X and not strip_casts(z).v & ~X) for z in y.c)
                   and any("flags" in (access_path(strip_casts(z)) or "") for z in y.c) for y in e.walk()):
                flagged = bool(cd[1]) if flagged is None else (flagged or bool(cd[1]))
        ok = flagged is not None
        why = "is not governed by a test of insn->flags & (X2|X4)"
        if ok and flagged:
            ok = any(strip_casts(st.c[1]).v is None and f.dominates(st, c) for st in stores)
            why = "runs on the x2/x4 side without a lane number having been stored into compiler->unroll_index"
        rep.check(ok, rule, where(f), "emit@%s" % c.line, "the rule is invoked once per lane of an x2/x4 instruction",
                  "the rule call at line %s %s: an x2/x4 instruction gets its rule invoked for lane 0 only - built-in rules of loop invariants ignore the "
                  "lane, an application's lane-wise rule emits half (a quarter) of its code" % (c.line, why), line=c.line)
    if n < 4:
        raise AnalysisBroken("only %d rule->emit calls in orc_compiler_c_assemble" % n)
    return n
