"""C12 — the assembly listing and the machine code are the same program.

  D1  every row of orc_x86_opcodes[]: the row's mnemonic, assembled by GNU as
      in the operand forms its type prints, yields the prefix / escape /
      opcode / extension the row encodes (legacy and VEX spellings)
  D2  OrcX86OpcodeIdx enumerators and table rows are aligned one to one
  D3  every instruction type has a non-default arm in each text and byte
      emitter switch; types that print an immediate also encode one
  D4  register-name tables are in hardware-encoding order
D5  a register number placed in the low bits of the opcode byte (push/pop/mov imm) has its
    bit 3 carried by a REX prefix, as the full register name in the listing requires
D6  a displacement is emitted as one byte only where it is known to lie in [-128, 127]
D9  a one-byte-immediate row is selected for a run-time immediate only where it is known to lie in [-128, 127]
D8  the memory-operand formats of the text emitter, instantiated with negative and large displacements, assemble to
    that displacement
D7  the displacement-free (mod=0) memory form is emitted only for bases other than rbp / r13
"""
import os
import re

from facts import AnalysisBroken, init_rows, unparse, strip_casts
from rules_common import where
import x86ref

# rows that are never flushed to the code buffer: only emitted by
# orc_x86_assemble_copy, which runs solely after orc_x86_get_max_alignment_var
# has raised a compile error and never calls orc_x86_output_insns
EXCLUDED_ROWS = {
    "ORC_X86_rep_movsb": "only emitted by orc_x86_assemble_copy (dead: reached only after a compile error, never encoded)",
    "ORC_X86_rep_movsw": "only emitted by orc_x86_assemble_copy (dead: reached only after a compile error, never encoded)",
    "ORC_X86_rep_movsl": "only emitted by orc_x86_assemble_copy (dead: reached only after a compile error, never encoded)",
}

GP_NAMES_64 = ["rax", "rcx", "rdx", "rbx", "rsp", "rbp", "rsi", "rdi", "r8", "r9", "r10", "r11", "r12", "r13", "r14", "r15"]
GP_NAMES_32 = ["eax", "ecx", "edx", "ebx", "esp", "ebp", "esi", "edi", "r8d", "r9d", "r10d", "r11d", "r12d", "r13d", "r14d", "r15d"]
GP_NAMES_16 = ["ax", "cx", "dx", "bx", "sp", "bp", "si", "di"]
GP_NAMES_8 = ["al", "cl", "dl", "bl"]


def candidates(tname, n):
    """{class: [asm strings]} for a row of type tname and mnemonic n."""
    X, M = ("%xmm1", "%xmm2"), ("%mm1", "%mm2")
    mem = "16(%rdi)"
    c = {}
    if tname in ("MMXM_MMX", "SSEM_SSE", "SSEM_AVX"):
        c["xmm"] = ["%s %s, %s" % (n, mem, X[1]), "%s %s, %s" % (n, X[0], X[1])]
        c["mm"] = ["%s %s, %s" % (n, mem, M[1]), "%s %s, %s" % (n, M[0], M[1])]
    elif tname == "IMM8_MMXM_MMX":
        c["xmm"] = ["%s $1, %s, %s" % (n, mem, X[1]), "%s $1, %s, %s" % (n, X[0], X[1])]
        c["mm"] = ["%s $1, %s, %s" % (n, mem, M[1]), "%s $1, %s, %s" % (n, M[0], M[1])]
    elif tname == "IMM8_MMX_SHIFT":
        c["xmm"] = ["%s $5, %s" % (n, X[1])]
        c["mm"] = ["%s $5, %s" % (n, M[1])]
    elif tname == "IMM8_MMX_REG_REV":
        c["xmm"] = ["%s $1, %s, %s" % (n, X[0], mem), "%s $1, %s, %%edx" % (n, X[0])]
        c["mm"] = ["%s $1, %s, %%edx" % (n, M[0])]
    elif tname in ("MMXM_MMX_REV", "SSEM_SSE_REV"):
        c["xmm"] = ["%s %s, %s" % (n, X[0], mem)]
        c["mm"] = ["%s %s, %s" % (n, M[0], mem)]
    elif tname == "REGM_MMX":
        c["xmm"] = ["%s %s, %s" % (n, mem, X[1]), "%s %%ecx, %s" % (n, X[1])]
        c["mm"] = ["%s %s, %s" % (n, mem, M[1]), "%s %%ecx, %s" % (n, M[1])]
    elif tname == "MMX_REGM_REV":
        c["xmm"] = ["%s %s, %s" % (n, X[0], mem), "%s %s, %%edx" % (n, X[0])]
        c["mm"] = ["%s %s, %s" % (n, M[0], mem), "%s %s, %%edx" % (n, M[0])]
    elif tname == "IMM8_REGM_MMX":
        c["xmm"] = ["%s $1, %s, %s" % (n, mem, X[1]), "%s $1, %%ecx, %s" % (n, X[1])]
        c["mm"] = ["%s $1, %s, %s" % (n, mem, M[1]), "%s $1, %%ecx, %s" % (n, M[1])]
    elif tname == "REGM":
        c["gp"] = ["%s %s" % (n, mem), "%s %%ecx" % n]
    elif tname == "MEM":
        c["gp"] = ["%s %s" % (n, mem)]
    elif tname == "IMM8_REGM":
        c["gp"] = ["%s $5, %s" % (n, mem), "%s $5, %%ecx" % n]
    elif tname == "IMM32_REGM":
        c["gp"] = ["%s $0x12345678, %s" % (n, mem), "%s $0x12345678, %%ecx" % n]
    elif tname == "REGM_REG":
        c["gp"] = ["%s %s, %%edx" % (n, mem), "%s %s, %%dx" % (n, mem), "%s %s, %%rdx" % (n, mem), "%s %%cl, %%edx" % n]
    elif tname == "REG_REGM":
        c["gp"] = ["%s %%edx, %s" % (n, mem), "%s %%rdx, %s" % (n, mem)]
    elif tname == "REG8_REGM":
        c["gp"] = ["%s %%dl, %s" % (n, mem)]
    elif tname == "REG16_REGM":
        c["gp"] = ["%s %%dx, %s" % (n, mem)]
    elif tname == "IMM32_REGM_MOV":
        c["gp"] = ["%s $0x12345678, %%edx" % n]
    elif tname == "IMM32_A":
        c["gp"] = ["%s $0x12345678, %%eax" % n]
    elif tname == "STACK":
        c["gp"] = ["%s %%rdx" % n]
    elif tname == "BRANCH":
        c["gp"] = ["%s 1f; 1:" % n]
    elif tname == "NONE":
        c["gp"] = [n]
    return c


def vex_candidates(tname, n):
    X = ("%xmm1", "%xmm3", "%xmm2")
    Y = ("%ymm1", "%ymm3", "%ymm2")
    mem = "16(%rdi)"
    v = "v" + n
    out = []
    for R in (X, Y):
        if tname in ("MMXM_MMX", "SSEM_SSE", "SSEM_AVX"):
            out += ["%s %s, %s, %s" % (v, mem, R[1], R[2]), "%s %s, %s" % (v, mem, R[2]), "%s %s, %s" % (v, R[0], R[2]),
                    "%s %s, %s" % (v, X[0], R[2]), "%s %s, %s, %s, %s" % (v, R[0], mem, R[1], R[2])]
        elif tname in ("IMM8_MMXM_MMX", "IMM8_SSEM_AVX"):
            out += ["%s $1, %s, %s, %s" % (v, mem, R[1], R[2]), "%s $1, %s, %s" % (v, mem, R[2]),
                    "%s $1, %s, %s, %s" % (v, X[0], Y[1], Y[2])]
        elif tname == "IMM8_AVX_SSEM":
            out += ["%s $1, %s, %s" % (v, Y[0], mem), "%s $1, %s, %s" % (v, Y[0], X[2])]
        elif tname == "IMM8_MMX_SHIFT":
            out += ["%s $5, %s, %s" % (v, R[1], R[2])]
        elif tname == "IMM8_MMX_REG_REV":
            out += ["%s $1, %s, %s" % (v, X[0], mem), "%s $1, %s, %%edx" % (v, X[0])]
        elif tname in ("MMXM_MMX_REV", "SSEM_SSE_REV"):
            out += ["%s %s, %s" % (v, R[0], mem)]
        elif tname == "REGM_MMX":
            out += ["%s %s, %s" % (v, mem, X[2]), "%s %%ecx, %s" % (v, X[2])]
        elif tname == "MMX_REGM_REV":
            out += ["%s %s, %s" % (v, X[0], mem), "%s %s, %%edx" % (v, X[0])]
        elif tname == "IMM8_REGM_MMX":
            out += ["%s $1, %s, %s, %s" % (v, mem, X[1], X[2]), "%s $1, %%ecx, %s, %s" % (v, X[1], X[2])]
        elif tname == "MEM":
            out += ["%s %s" % (v, mem)]
        elif tname == "NONE":
            out += [v]
    seen = []
    for o in out:
        if o not in seen:
            seen.append(o)
    return seen


def run(ctx):
    db = ctx.db()
    rep = ctx.report
    rep.explanation = (
        "Table-level agreement between the x86 text emitter and byte emitter: each row's own mnemonic is handed to GNU as (an "
        "independent reader of what users of `orcc --assembly` get) in the operand forms the row's type prints, and the bytes are "
        "decoded and compared with the prefix/escape/opcode/extension fields the byte emitter uses; legacy and VEX spellings; "
        "enum/table alignment; exhaustiveness of the emitters' type switches; register-name tables in encoding order. "
        "Per-program identity of the two outputs (operand selection, branch relaxation, fixups, alignment filler) and the "
        "non-x86 listings are NOT decided. No Orc code is executed: the assembler only sees strings built from the table.")
    rep.assumptions += ["GNU as (binutils of this image) is the reference reader of AT&T mnemonics",
                        "field semantics of OrcX86Opcode as implemented by output_opcode(): prefix byte, 0F escape, 38/3A escape, code, code2=/ext",
                        "three rep-movs rows are excluded: dead code (see rules/c12.py EXCLUDED_ROWS)"]
    tu = db.tu("orcx86insn")
    rows = init_rows(tu.global_("orc_x86_opcodes"))
    idx_enum = [e for e in tu.enumdecls if any(i[0] == "ORC_X86_punpcklbw" for i in e["items"])]
    type_enum = [e for e in tu.enumdecls if any(i[0] == "ORC_X86_INSN_TYPE_MMXM_MMX" for i in e["items"])]
    if not idx_enum or not type_enum:
        raise AnalysisBroken("OrcX86OpcodeIdx / OrcX86InsnType enums not found")
    idx_items = idx_enum[0]["items"]
    tnames = {v: k[len("ORC_X86_INSN_TYPE_"):] for k, v in type_enum[0]["items"]}
    if len(rows) < 200:
        raise AnalysisBroken("orc_x86_opcodes[] has only %d rows" % len(rows))

    # ---- D2 ------------------------------------------------------------------
    rep.check(len(rows) == len(idx_items), "D2-ENUM-TABLE", "orc/orcx86insn.c", "row-count",
              "%d rows == %d enumerators" % (len(rows), len(idx_items)),
              "orc_x86_opcodes[] has %d rows but OrcX86OpcodeIdx has %d enumerators: indices after the gap name the wrong row" % (len(rows), len(idx_items)))
    ALIAS = {"permute2f128": "perm2f128", "permute4x64": "permq", "permute2i128": "perm2i128", "LABEL": "", "ALIGN": ""}
    for r, (en, ev) in zip(rows, idx_items):
        base = en[len("ORC_X86_"):]
        mn = r["name"].replace(" ", "_")
        for a, b in ALIAS.items():
            if base == a or base.startswith(a + "_"):
                base = b + base[len(a):]
        ok = base == mn or base.startswith(mn + "_") or (mn[-1:] in "lbwqd" and (base == mn[:-1] or base.startswith(mn[:-1] + "_")))
        rep.check(ok, "D2-ENUM-TABLE", "orc/orcx86insn.c", en, "row %d is `%s`" % (ev, r["name"]),
                  "enumerator %s (index %d) selects the row named `%s`: enum and table are out of step" % (en, ev, r["name"]))

    # ---- D1 ------------------------------------------------------------------
    PFX = {"MMX": db.macro_int("ORC_SIMD_PREFIX_MMX"), "ESC": db.macro_int("ORC_SIMD_PREFIX_ESCAPE_ONLY"),
           "NONE": db.macro_int("ORC_VEX_SIMD_PREFIX_NONE"), "66": db.macro_int("ORC_VEX_SIMD_PREFIX_66"),
           "F3": db.macro_int("ORC_VEX_SIMD_PREFIX_F3"), "F2": db.macro_int("ORC_VEX_SIMD_PREFIX_F2")}
    FL = {k: db.macro_int(k) for k in ("ORC_VEX_ESCAPE_38", "ORC_VEX_ESCAPE_3A", "ORC_USES_TWO_BYTES_OPCODE", "ORC_VEX_W0", "ORC_VEX_W1", "ORC_SKIP_ESCAPE")}
    # which register class each row is actually emitted with, from the call
    # sites of the emit entry points (macros are expanded in the AST)
    uses = {}
    for f in db.all_functions():
        for c in f.calls():
            if not c.name or len(c.args()) < 2 or c.args()[1].v is None:
                continue
            if c.name.startswith("orc_vex_emit_"):
                cls = "vex"
            elif c.name.startswith("orc_x86_emit_cpuinsn"):
                ctx_name = (f.tu.base + " " + f.name).lower()
                cls = "mm" if "mmx" in ctx_name else "xmm" if ("sse" in ctx_name or "avx" in ctx_name) else "gp"
            else:
                continue
            v = c.args()[1].v
            if 0 <= v < len(idx_items):
                uses.setdefault(idx_items[v][0], set()).add(cls)
    vex_rows = {k for k, v in uses.items() if "vex" in v}
    work = os.path.join(ctx.scratch, "as")
    os.makedirs(work, exist_ok=True)
    lines = []
    plan = []   # (row index, class, [line indexes])
    for i, r in enumerate(rows):
        en = idx_items[i][0] if i < len(idx_items) else "row%d" % i
        tn = tnames.get(r["type"], "?")
        if not r["name"] or en in EXCLUDED_ROWS:
            continue
        cs = candidates(tn, r["name"])
        for cls, lst in cs.items():
            ids = []
            for s in lst:
                ids.append(len(lines))
                lines.append(s)
            plan.append((i, cls, ids))
        if "vex" in uses.get(en, ()):
            ids = []
            for s in vex_candidates(tn, r["name"]):
                ids.append(len(lines))
                lines.append(s)
            plan.append((i, "vex", ids))
    try:
        enc, rejected = x86ref.assemble(lines, work, True, "t64")
    except Exception as e:
        raise AnalysisBroken("assembler oracle failed: %s" % e)
    rep.extra["assembler_lines"] = len(lines)
    rep.extra["assembler_accepted"] = sum(1 for e in enc if e is not None)
    per_row = {}
    for i, cls, ids in plan:
        got = [(lines[k], enc[k]) for k in ids if enc[k] is not None]
        per_row.setdefault(i, {})[cls] = (got[0] if got else None, [lines[k] for k in ids], [rejected.get(k) for k in ids])
    checked = 0
    for i, r in enumerate(rows):
        en = idx_items[i][0] if i < len(idx_items) else "row%d" % i
        if i not in per_row:
            if en in EXCLUDED_ROWS:
                rep.info("row %s excluded: %s" % (en, EXCLUDED_ROWS[en]))
            continue
        tn = tnames.get(r["type"], "?")
        prefix, flags, code, code2 = r["prefix"], r["flags"], r["code"], r["code2"]
        classes = per_row[i]
        u = uses.get(en, set())
        if not u:
            rep.info("row %s (`%s`) has no emission site: not judged" % (en, r["name"]))
            continue
        simd = any(c in classes for c in ("xmm", "mm"))
        want = set()
        for cls in u:
            if cls == "vex":
                continue
            if simd:
                want.add(cls if cls in ("xmm", "mm") else "xmm")
            else:
                want.add("gp")
        legacy_ok = None
        details = []
        any_accepted = False
        for cls in ("xmm", "mm", "gp"):
            if cls not in classes or cls not in want:
                continue
            got, tried, errs = classes[cls]
            if got is None:
                continue
            any_accepted = True
            line, b = got
            d = x86ref.decode(b)
            exp_legacy = []
            if prefix == PFX["MMX"]:
                exp_legacy = [0x66] if cls == "xmm" else []
            elif prefix == PFX["66"]:
                exp_legacy = [0x66]
            elif prefix == PFX["F3"]:
                exp_legacy = [0xF3]
            elif prefix == PFX["F2"]:
                exp_legacy = [0xF2]
            if prefix == PFX["NONE"] or (flags & FL["ORC_SKIP_ESCAPE"]):
                exp_map = "1"
            elif flags & FL["ORC_VEX_ESCAPE_38"]:
                exp_map = "0F38"
            elif flags & FL["ORC_VEX_ESCAPE_3A"]:
                exp_map = "0F3A"
            else:
                exp_map = "0F"
            exp_op = code & 0xff
            got_op = d["opcode"]
            if flags & FL["ORC_USES_TWO_BYTES_OPCODE"]:
                # 0F hi lo
                ok = d["legacy"] == exp_legacy and d["map"] == "0F" and got_op == (code >> 8) & 0xff and d["modrm"] == (code & 0xff)
            else:
                if tn in ("STACK", "IMM32_REGM_MOV"):
                    got_op = got_op & 0xf8
                ok = [x for x in d["legacy"] if x != 0x67] == exp_legacy and d["map"] == exp_map and got_op == exp_op
                if ok and tn in ("IMM8_MMX_SHIFT", "REGM", "MEM", "IMM8_REGM", "IMM32_REGM") and d["modrm"] is not None:
                    ok = ((d["modrm"] >> 3) & 7) == code2
                if ok and tn == "SSEM_SSE":
                    ok = b[-1] == code2      # predicate immediate of cmpXXps/pd
            details.append("%s: `%s` -> %s, row expects legacy=%s map=%s op=%02x%s" %
                           (cls, line, b.hex(), [hex(x) for x in exp_legacy], exp_map, exp_op,
                            (" /%d" % code2) if tn in ("IMM8_MMX_SHIFT", "REGM", "MEM", "IMM8_REGM", "IMM32_REGM") else ""))
            legacy_ok = ok if legacy_ok is None else (legacy_ok and ok)
        vex_ok = None
        if "vex" in classes:
            got, tried, errs = classes["vex"]
            if got is None:
                vex_ok = False
                details.append("vex: none of %s assembles (%s)" % (tried[:3], [e for e in errs if e][:1]))
            else:
                line, b = got
                d = x86ref.decode(b)
                vx = d["vex"]
                if vx is None:
                    vex_ok = False
                    details.append("vex: `%s` -> %s has no VEX prefix" % (line, b.hex()))
                else:
                    pp = {PFX["MMX"]: 1, PFX["66"]: 1, PFX["F3"]: 2, PFX["F2"]: 3}.get(prefix, 0)
                    emap = "0F38" if flags & FL["ORC_VEX_ESCAPE_38"] else "0F3A" if flags & FL["ORC_VEX_ESCAPE_3A"] else "0F"
                    vex_ok = vx["pp"] == pp and d["map"] == emap and d["opcode"] == (code & 0xff)
                    if vex_ok and (flags & FL["ORC_VEX_W1"]):
                        vex_ok = vx["W"] == 1
                    if vex_ok and tn in ("IMM8_MMX_SHIFT",) and d["modrm"] is not None:
                        vex_ok = ((d["modrm"] >> 3) & 7) == code2
                    details.append("vex: `%s` -> %s, row expects pp=%d map=%s op=%02x" % (line, b.hex(), pp, emap, code & 0xff))
        # verdict
        needs_legacy = bool(want)
        if needs_legacy and not any_accepted:
            if False:
                pass
            else:
                tried = sum((classes[c][1] for c in classes if c in want), [])
                errs = [e for c in classes if c in want for e in classes[c][2] if e]
                checked += 1
                rep.violation("D1-ROW-VS-AS", "orc/orcx86insn.c", en,
                              "mnemonic `%s` (type %s) is not accepted by the assembler in any operand form its type prints (%s): %s" %
                              (r["name"], tn, tried[:3], errs[:1]))
                continue
        ok = (legacy_ok is not False if needs_legacy else True) and (vex_ok is not False)
        if legacy_ok is None and vex_ok is None:
            continue
        checked += 1
        rep.check(ok, "D1-ROW-VS-AS", "orc/orcx86insn.c", en, "; ".join(details)[:400],
                  "table row `%s` does not encode what the assembler reads from its mnemonic: %s" % (r["name"], "; ".join(details)[:600]))
    rep.floor("D1-ROW-VS-AS", 170)

    d3(db, rep, tu, type_enum[0], tnames)
    from x86enc import check_rex_coverage
    check_rex_coverage(db, rep, "D5-REX-COVERAGE", tnames)
    from x86enc import check_rex_roles
    check_rex_roles(db, rep, "D5-REX-ROLES", tnames)
    from x86enc import check_disp8
    check_disp8(db, rep, "D6-DISP8-RANGE")
    from x86enc import check_mod0_base
    check_mod0_base(db, rep, "D7-MOD0-BASE")
    from x86enc import check_imm8
    check_imm8(db, rep, "D9-IMM8-RANGE")
    from x86enc import check_vex_pp
    npp = check_vex_pp(db, rep, "D10-VEX-PP")
    if npp < 10:
        raise AnalysisBroken("only %d (encoder, prefix class) pairs judged for VEX.pp" % npp)
    from x86enc import check_vex2_selection
    nv2 = check_vex2_selection(db, rep, "D11-VEX2-SELECTION")
    if nv2 < 15:
        raise AnalysisBroken("only %d (instruction type, operand shape) cases judged for the VEX form selection" % nv2)
    from x86enc import check_listing_bytes_paired
    check_listing_bytes_paired(db, rep, "D13-LISTING-BYTES-PAIRED")
    from x86enc import check_bank_prefix
    check_bank_prefix(db, rep, "D14-BANK-PREFIX")
    from x86enc import check_names_stateless
    check_names_stateless(db, rep, "D15-NAMES-STATELESS")
    from x86enc import check_gp_name_width
    check_gp_name_width(db, rep, "D16-GP-NAME-WIDTH")
    from x86enc import check_vex_listing_assembles
    check_vex_listing_assembles(db, rep, "D17-VEX-LISTING-ASSEMBLES", ctx.scratch)
    from x86enc import check_labels_distinct
    check_labels_distinct(db, rep, "D18-LABELS-DISTINCT")
    from x86enc import check_listing_writer_reentrant
    check_listing_writer_reentrant(db, rep, "D19-LISTING-WRITER-REENTRANT")
    from x86enc import check_listing_lines_terminated
    check_listing_lines_terminated(db, rep, "D20-LISTING-LINES-TERMINATED")
    from x86enc import check_is4_operand_first
    check_is4_operand_first(db, rep, "D21-IS4-OPERAND-FIRST")
    from vexroles import check_vex_rxb_roles
    nvr = check_vex_rxb_roles(db, rep, "D12-VEX-RXB-ROLES")
    if nvr < 5:
        raise AnalysisBroken("only %d (instruction type, sources, operand form) shapes judged for VEX.R/X/B roles" % nvr)
    from x86enc import check_listing_displacements
    wd8 = os.path.join(ctx.scratch, "disp")
    os.makedirs(wd8, exist_ok=True)
    check_listing_displacements(db, rep, "D8-LISTING-DISPLACEMENT", wd8)
    d4(db, rep)


def d3(db, rep, tu, type_enum, tnames):
    all_types = {v for k, v in type_enum["items"]}
    n = 0
    for f in tu.main_functions():
        k = 0
        for sw in f.walk():
            if sw.k != "SwitchStmt" or "opcode->type" not in unparse(sw.c[0]):
                continue
            cases = set()
            for x in sw.c[1].walk():
                if x.k == "CaseStmt":
                    lo, hi = x.get("lo"), x.get("hi", x.get("lo"))
                    cases.update(range(lo, hi + 1))
            if len(cases) < 10:
                continue
            k += 1
            n += 1
            rep.saw(f)
            miss = sorted(tnames[v] for v in all_types - cases)
            rep.check(not miss, "D3-EXHAUSTIVE", where(f), "switch#%d(opcode->type)" % k,
                      "all %d instruction types have an explicit arm" % len(all_types),
                      "instruction type(s) %s fall into the default arm of this emitter switch" % miss, line=sw.line)
    if n < 8:
        raise AnalysisBroken("expected >=8 type switches in orcx86insn.c, found %d" % n)

    # immediates: text emitter vs byte emitters
    def imm_types(fname, nth=1):
        f = tu.fn[fname]
        k = 0
        for sw in f.walk():
            if sw.k == "SwitchStmt" and "opcode->type" in unparse(sw.c[0]):
                k += 1
                if k != nth:
                    continue
                res = set()
                cur = []
                # walk the compound body sequentially: case labels accumulate until a statement uses xinsn->imm / breaks
                def visit(node, labels):
                    if node.k == "CaseStmt":
                        labels = labels + [node.get("lo")]
                        sub = node.c[0] if node.c else None
                        if sub is not None:
                            return visit(sub, labels)
                        return labels
                    if node.k == "DefaultStmt":
                        return []
                    uses = any(x.k == "MemberExpr" and x.name == "imm" for x in node.walk())
                    if uses:
                        res.update(labels)
                    return labels
                labels = []
                for st in sw.c[1].kids():
                    if st.k in ("CaseStmt", "DefaultStmt"):
                        labels = visit(st, [] if st.k == "DefaultStmt" else [])
                        # nested: case A: case B: stmt
                        # collect all labels in the chain
                        chain = []
                        x = st
                        while x is not None and x.k in ("CaseStmt", "DefaultStmt"):
                            if x.k == "CaseStmt":
                                chain.append(x.get("lo"))
                            x = x.c[0] if x.c else None
                        pending = chain
                        if x is not None and any(y.k == "MemberExpr" and y.name == "imm" for y in x.walk()):
                            res.update(chain)
                            pending_uses = True
                        else:
                            pending_uses = False
                        cur = (chain, pending_uses)
                    elif st.k == "BreakStmt":
                        cur = ([], False)
                    else:
                        if cur and any(y.k == "MemberExpr" and y.name == "imm" for y in st.walk()):
                            res.update(cur[0])
                return res
        raise AnalysisBroken("switch #%d not found in %s" % (nth, fname))
    asm_imm = imm_types("orc_x86_insn_output_asm", 1)
    byte_imm = imm_types("orc_x86_insn_output_immediate", 1)
    vex_imm = imm_types("orc_vex_insn_output_immediate", 1)
    only_text = sorted(tnames[v] for v in asm_imm - (byte_imm | vex_imm))
    only_bytes = sorted(tnames[v] for v in (byte_imm | vex_imm) - asm_imm)
    rep.check(not only_text and not only_bytes and len(asm_imm) >= 8, "D3-IMMEDIATE", "orc/orcx86insn.c::orc_x86_insn_output_asm", "imm-types",
              "the %d types that print an immediate are the types that encode one" % len(asm_imm),
              "immediate handling differs between text and byte emitters: printed only %s, encoded only %s" % (only_text, only_bytes))


def d4(db, rep):
    tu = db.tu("orcx86")
    ref = {
        "orc_x86_get_regname": GP_NAMES_32, "orc_x86_get_regname_64": GP_NAMES_64,
        "orc_x86_get_regname_16": GP_NAMES_16, "orc_x86_get_regname_8": GP_NAMES_8,
        "orc_x86_get_regname_sse": ["xmm%d" % i for i in range(16)],
        "orc_x86_get_regname_mmx": ["mm%d" % i for i in range(8)],
    }
    n = 0
    for t in db.tus.values():
        for g in t.globals:
            owner = g.get("in")
            if owner in ref and "init" in g and "list" in g["init"]:
                names = [x.get("s") for x in g["init"]["list"] if isinstance(x, dict)]
                want = ref[owner]
                m = min(len(names), len(want))
                ok = m >= 4 and names[:m] == want[:m]
                n += 1
                rep.check(ok, "D4-REGNAMES", "%s::%s" % ("orc/" + t.base, owner), g["name"],
                          "%d names in hardware-encoding order" % m,
                          "register-name table is not in encoding order: %s (expected %s)" % (names[:m], want[:m]))
    # avx names: two tables (xmm/ymm) in orcavx.c
    for t in db.tus.values():
        for g in t.globals:
            if g.get("in") == "orc_x86_get_regname_avx" and "init" in g and "list" in g["init"]:
                names = [x.get("s") for x in g["init"]["list"] if isinstance(x, dict)]
                pre = "ymm" if names and names[0].startswith("ymm") else "xmm"
                want = ["%s%d" % (pre, i) for i in range(len(names))]
                n += 1
                rep.check(names == want and len(names) >= 8, "D4-REGNAMES", "orc/%s::orc_x86_get_regname_avx" % t.base, g["name"],
                          "%d %s names in encoding order" % (len(names), pre), "AVX register names out of order: %s" % names)
    if n < 5:
        raise AnalysisBroken("only %d register-name tables found" % n)
    d4b_regname_domain(db, rep)


def d4b_regname_domain(db, rep, rule="D4b-REGNAME-DOMAIN"):
    """The name tables being in encoding order (D4) says nothing about WHICH registers reach them: the helpers select the
    table entry behind a range test on the register number.  Each helper is evaluated (lib/funceval.py) for EVERY register of
    its bank, taken from the register enumerations: exactly one return statement must be reached, and it must name that very
    register - the table entry with the register's number within the bank, or (VEX.128 form of the AVX helper) the SSE helper
    called with the %xmm register of the same number.  A range test one short (`n >= X86_YMM15 - X86_YMM0`) sends the last
    register of the bank to the fall-back text ("ERROR"): the listing of a program that keeps 16 vector values live does not
    assemble while its machine code is unchanged."""
    import re
    from funceval import returns, _ev, Unknown
    banks = {"XMM": {}, "YMM": {}, "MM": {}}
    for t in db.tus.values():
        for k, v in t.enums.items():
            m = re.match(r"^X86_(XMM|YMM|MM)(\d+)$", k)
            if m:
                banks[m.group(1)][int(m.group(2))] = v
    if len(banks["XMM"]) != 16 or len(banks["YMM"]) != 16 or len(banks["MM"]) != 8:
        raise AnalysisBroken("register enumerations: %s" % {k: len(v) for k, v in banks.items()})
    V128, V256 = db.enum("ORC_X86_AVX_VEX128_PREFIX"), db.enum("ORC_X86_AVX_VEX256_PREFIX")
    cases = [("orc_x86_get_regname_sse", "orcsse", "XMM", [None], "xmm"), ("orc_x86_get_regname_mmx", "orcmmx", "MM", [None], "mm"),
             ("orc_x86_get_regname_avx", "orcavx", "YMM", [V256, V128], "ymm")]
    n = 0
    for fname, tub, bank, prefixes, pre in cases:
        tu = db.tu(tub)
        f = tu.fn.get(fname)
        if f is None or f.body is None:
            raise AnalysisBroken("%s not found in %s.c" % (fname, tub))
        rep.saw(f)
        tables = {}
        for g in tu.globals:
            if g.get("in") == fname and "init" in g and "list" in g["init"]:
                tables[g["name"]] = [x.get("s") for x in g["init"]["list"] if isinstance(x, dict)]
        for pf in prefixes:
            bad = []
            for num, r in sorted(banks[bank].items()):
                hits = []
                returns(tu, f, [r] + ([pf] if pf is not None else []), on_return=lambda e, env: hits.append((e, env)))
                n += 1
                got = None
                if len(hits) == 1 and hits[0][0].c and hits[0][0].c[0] is not None:
                    e, env = strip_casts(hits[0][0].c[0]), hits[0][1]
                    try:
                        if e.k == "ArraySubscriptExpr":
                            tb = strip_casts(e.c[0])
                            ix = _ev(tu, f, e.c[1], env, {}, 0)
                            names = tables.get(tb.name if tb is not None and tb.k == "DeclRefExpr" else None)
                            if names is not None and 0 <= ix < len(names):
                                got = names[ix]
                        elif e.k == "CallExpr" and e.name == "orc_x86_get_regname_sse" and e.args():
                            a = _ev(tu, f, e.args()[0], env, {}, 0)
                            back = [k for k, v in banks["XMM"].items() if v == a]
                            got = "xmm%d" % back[0] if back else None
                        elif e.k == "StringLiteral":
                            got = e.get("s")
                    except Unknown:
                        got = None
                want = ("xmm%d" if pf == V128 and pf is not None else pre + "%d") % num
                if got != want:
                    bad.append("%s%d -> %s" % (bank.lower(), num, got if got is not None else "%d return statements reached / not a table entry" % len(hits)))
            rep.check(not bad, rule, "orc/%s.c::%s" % (tub, fname), "%s%s" % (fname, "" if pf is None else ":prefix=%d" % pf),
                      "every register of the %%%s bank is printed under its own name" % bank.lower(),
                      "%s does not name every register of the %%%s bank%s (%s): the listing prints another text for that register than the "
                      "encoder emits (the fall-back \"ERROR\" does not assemble)" % (fname, bank.lower(), "" if pf is None else " with prefix %d" % pf, "; ".join(bad[:4])),
                      line=f.line)
    if n < 16 + 8 + 32:
        raise AnalysisBroken("only %d register-name evaluations" % n)
    return n
