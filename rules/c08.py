"""C08 — thread safety (structural part).

  D1 R-LOCK  allocator state is touched only with the global mutex held
  D2 R-PAIR  both mutexes are released on every exit (once_enter/leave protocol)
  D3 R-ORDER publication order of the once protocol (value, release-store, unlock;
             acquire-load before reading value)
  D4 R-WHO   process-wide registries are written only on the init / registration
             path, never from the compile or run path
  D5 R-ATOM  a location read outside a mutex and written inside it is atomic
  D7 R-WHO   the wrappers orcc generates declare no mutable function-static object besides the once control
             (the executor and everything a call works on is per call)
  D6 R-LOCK  orc_init runs every initialiser with the global mutex held and publishes its
             once flag only after they have finished
"""
from facts import ASSIGN_OPS, AnalysisBroken, access_path, strip_casts, unparse, root_var
from flow import atom, Facts
from locks import LockState, LOCK, requires_lock
from callgraph import CallGraph
from rules_common import where

PROTECTED_GLOBALS = {"orc_code_regions", "orc_code_n_regions"}
PROTECTED_FIELDS = {("OrcCodeChunk", f) for f in ("next", "prev", "used", "offset", "size", "region")} | {("OrcCodeRegion", "chunks")}

REGISTRIES = {
    "targets": "orctarget", "n_targets": "orctarget", "default_target": "orctarget",
    "opcode_sets": "orcopcode", "n_opcode_sets": "orcopcode",
    "_orc_compiler_flag_backup": "orccompiler", "_orc_compiler_flag_emulate": "orccompiler",
    "_orc_compiler_flag_debug": "orccompiler", "_orc_compiler_flag_randomize": "orccompiler",
    "_orc_compiler_flag_list": "orccompiler", "_orc_codemem_alignment": "orccompiler",
    "orc_x86_sse_flags": "orccpu-x86", "orc_x86_mmx_flags": "orccpu-x86",
    "_orc_debug_level": "orcdebug", "_orc_debug_print_func": "orcdebug",
}
DESCRIPTOR_RECORDS = ("OrcTarget", "OrcX86Target", "OrcRuleSet", "OrcOpcodeSet", "OrcStaticOpcode", "OrcRule")
REGISTRY_FIELDS = {("OrcTarget", "rule_sets"), ("OrcTarget", "n_rule_sets"), ("OrcRuleSet", "rules"), ("OrcRule", "emit"), ("OrcRule", "emit_user")}


BUFFER_WRITERS = ("snprintf", "sprintf", "vsnprintf", "vsprintf", "strcpy", "strncpy", "strcat", "strncat", "memcpy", "memmove", "memset",
                  "__builtin___snprintf_chk", "__builtin___sprintf_chk", "__builtin___strcpy_chk", "__builtin___memcpy_chk", "__builtin___memset_chk")


def writes_of(f):
    """(node, kind, key) for every store to a global or to a record field."""
    for n in f.walk():
        if n.k in ("BinaryOperator", "CompoundAssignOperator") and n.op in ASSIGN_OPS:
            l = strip_casts(n.c[0])
        elif n.k == "UnaryOperator" and n.op in ("++", "--"):
            l = strip_casts(n.c[0])
        elif n.k == "CallExpr" and n.name in BUFFER_WRITERS and n.args():
            # snprintf (buf, ...), strcpy (buf, ...): a store into the buffer named by the first argument
            l = strip_casts(n.args()[0])
            if l is not None and l.k == "UnaryOperator" and l.op == "&":
                l = strip_casts(l.c[0])
        else:
            continue
        if l is None:
            continue
        base = l
        while base is not None and base.k == "ArraySubscriptExpr":
            base = strip_casts(base.c[0])
        if base is not None and base.k == "DeclRefExpr" and base.get("dk") in ("global", "static_local"):
            yield n, "global", base.name
        elif base is not None and base.k == "MemberExpr":
            yield n, "field", ((base.get("rec") or "").lstrip("_"), base.name)


def accesses_of(f):
    """(node, key) for reads/writes of protected allocator state."""
    for n in f.walk():
        if n.k == "DeclRefExpr" and n.get("dk") == "global" and n.name in PROTECTED_GLOBALS:
            yield n, n.name
        elif n.k == "MemberExpr" and ((n.get("rec") or "").lstrip("_"), n.name) in PROTECTED_FIELDS:
            yield n, "%s.%s" % ((n.get("rec") or "").lstrip("_"), n.name)


def fresh_local_objects(f):
    """locals assigned from an allocator in this function and not yet published"""
    out = set()
    for n in f.walk():
        if n.k == "BinaryOperator" and n.op == "=":
            l, r = strip_casts(n.c[0]), strip_casts(n.c[1])
            if l is not None and l.k == "DeclRefExpr" and r is not None and r.k == "CallExpr" and r.name in ("orc_malloc", "malloc", "calloc"):
                out.add(l.name)
    return out


def d1(db, rep, rule="D1-R-LOCK"):
    """allocator state (region table, chunk lists) is touched only with the global mutex held."""
    # ---- D1 -------------------------------------------------------------------
    cm = db.tu("orccodemem")
    n1 = 0
    for f in cm.main_functions():
        acc = list(accesses_of(f))
        if not acc:
            continue
        rep.saw(f)
        ls = LockState(f, "global")
        req = None
        fresh = fresh_local_objects(f)
        bad = []
        for n, key in acc:
            r = root_var(n)
            if r is not None and r.name in fresh and key != "OrcCodeRegion.chunks" or (r is not None and r.name in fresh):
                continue
            h = ls.held_at(n)
            if h:
                continue
            if req is None:
                req = requires_lock(db, f, "global")
            if not req:
                bad.append((n, key))
        n1 += 1
        rep.check(not bad, rule, where(f), "allocator-state",
                  "%d accesses to shared allocator state, all with the global mutex held (%s)" %
                  (len(acc), "requires-lock: every caller holds it" if req else "locked in this function"),
                  "access to %s without the global mutex (neither taken here nor held by every caller)" %
                  (sorted({k for _, k in bad})), line=bad[0][0].line if bad else None)
    # nobody outside orccodemem.c touches it
    for f in db.all_functions():
        if f.tu.base.startswith("orccodemem"):
            continue
        for n, key in accesses_of(f):
            rep.violation(rule, where(f), key, "allocator state accessed outside orccodemem.c", line=n.line)
    rep.floor(rule, 6)



def compiler_state_fresh(db, rep, rule):
    """Concurrent compiles are independent because everything a compile writes hangs off its own OrcCompiler (allocated in
    orc_program_compile_full).  Every pointer field of the compiler that orc_compiler_compile_program sets must therefore point
    at storage obtained for this compile (an allocator call), at the program / target it was handed, or at other storage of
    the same compiler - never at a static or global buffer, which every compile in flight would share (code generation holds
    no lock)."""
    f = db.func("orc_compiler_compile_program", "orccompiler")
    rep.saw(f)
    n = 0
    bad = None
    for x in f.walk():
        if x.k != "BinaryOperator" or x.op != "=":
            continue
        lp = access_path(x.c[0]) or ""
        if not lp.startswith("compiler->") or "*" not in (strip_casts(x.c[0]).ty or ""):
            continue
        n += 1
        r = strip_casts(x.c[1])
        rv = root_var(r) if r is not None and r.k != "CallExpr" else None
        if rv is not None and rv.get("dk") in ("global", "static_local"):
            bad = (x, lp, rv.name)
    rep.check(bad is None, rule, where(f), "compiler-pointer-fields",
              "%d pointer fields of the compiler are set from allocations, arguments or the compiler itself" % n,
              "orc_compiler_compile_program points `%s` at the process-wide `%s`: every compile running at the same time emits into (and copies its "
              "result out of) the same storage, so a program gets another program's code, a mixture, or a spurious failure" %
              (bad[1] if bad else "", bad[2] if bad else ""), line=bad[0].line if bad else None)
    if n < 2:
        raise AnalysisBroken("orc_compiler_compile_program sets only %d pointer fields of the compiler" % n)


def lock_released_on_every_exit(db, rep, rule, tub):
    """every function of translation unit `tub` that takes the global mutex returns with it released, whatever the path
    (shared with C06: the failure paths of the code-memory allocator are exactly the ones a test never takes)"""
    n = 0
    for f in db.tu(tub).main_functions():
        if f.name in LOCK or not any(c.name in LOCK and LOCK[c.name][0] == "global" for c in f.calls()):
            continue
        n += 1
        rep.saw(f)
        ex = LockState(f, "global").exit_states()
        rep.check(all(not h for _, h in ex) and bool(ex), rule, where(f), "global@%s" % f.name,
                  "global mutex released on every path to the exit",
                  "%s can return with the global mutex still held (a failure exit): the compile that hit the failure still falls back, but the next Orc "
                  "operation that takes the mutex - another compile, a free, orc_init - blocks for ever" % f.name)
    if n < 1:
        raise AnalysisBroken("no function of %s takes the global mutex" % tub)
    return n


def once_enter_value_guarded(db, rep, rule):
    """orc_once_enter hands out once->value only on paths where an acquire load of `inited` returned non-zero (shared with
    C07: a lazily initialised wrapper receives its OrcCode through this value)."""
    tu_any = next(t for t in db.tus.values() if "orc_once_enter" in t.fn)
    en = tu_any.fn["orc_once_enter"]
    rep.saw(en)
    fc = Facts(en)
    loads = [n for n in en.walk() if n.k == "MemberExpr" and n.name == "value" and n.get("arrow") and n.parent is not None
             and not (n.parent.k == "BinaryOperator" and n.parent.op == "=" and n.parent.c[0] is n)]
    acq = [n for n in en.walk() if n.k == "AtomicExpr" and n.get("aop") == "load"]
    okl = bool(loads) and bool(acq) and all(a.get("order") in (1, 2, 4, 5) for a in acq)
    for ld in loads:
        # guarded by a non-zero test of the variable the acquire load was assigned to
        conds = fc.conds(ld)
        g = False
        for c in conds:
            if c[0] == "switch":
                continue
            cn, pol = c
            if cn.k == "CallExpr" and cn.name == "__builtin_expect":
                cn = strip_casts(cn.args()[0])
            if cn.k == "DeclRefExpr" and pol:
                # that local's latest definition is an acquire load dominating ld
                for a in acq:
                    p = a.parent
                    while p is not None and p.k == "CStyleCastExpr":
                        p = p.parent
                    if p is not None and p.k == "BinaryOperator" and access_path(p.c[0]) == cn.name and en.dominates(a, ld):
                        g = True
        okl = okl and g
    rep.check(okl, rule, where(en), "acquire-load-before-value",
              "every read of once->value is guarded by a non-zero acquire load of `inited`",
              "orc_once_enter reads once->value on a path not guarded by an acquire load of `inited` that returned non-zero")



def _state_read(e):
    """an element that (re)reads the once state: atomic load, __sync builtin on &once->inited, or a plain read of ->inited"""
    if e.k == "AtomicExpr" and e.get("aop") == "load":
        return True
    if e.k == "CallExpr" and (e.name or "").startswith("__sync_") and any(x.k == "MemberExpr" and x.name == "inited" for a in e.args() for x in a.walk()):
        return True
    return False


def once_recheck_under_lock(en, rep, rule, variant):
    """Double-checked locking: a caller is told to initialise (orc_once_enter returns FALSE, mutex held) only after the state
    has been read again AFTER the mutex was taken - on every path, whichever thread it is.  Otherwise two threads that both
    saw "not initialised" before the mutex initialise one after the other."""
    from collections import deque
    locks_ = [c for c in en.calls("orc_once_mutex_lock")]
    rets = [r for r in en.walk() if r.k == "ReturnStmt" and r.c and r.c[0] is not None and strip_casts(r.c[0]).v == 0]
    if not locks_ or not rets:
        raise AnalysisBroken("orc_once_enter (%s): %d lock calls, %d `return FALSE`" % (variant, len(locks_), len(rets)))
    if not any(_state_read(e) for e in en.walk()):
        raise AnalysisBroken("orc_once_enter (%s): no read of the once state recognised" % variant)
    bad = None
    for lk in locks_:
        lp = en.pos(lk)
        seen = set()
        dq = deque([(lp[0], lp[1] + 1)])
        while dq and bad is None:
            b, i0 = dq.popleft()
            if (b, i0 > 0) in seen:
                continue
            seen.add((b, i0 > 0))
            blk = en.blocks[b]
            stop = False
            for e in blk.el[i0:]:
                if _state_read(e):
                    stop = True
                    break
                if e.k == "ReturnStmt" and any(e.id == r.id for r in rets):
                    bad = e
                    break
            if stop or bad is not None or blk.noreturn:
                continue
            for s_ in blk.succs:
                if s_ is not None:
                    dq.append((s_, 0))
    rep.check(bad is None, rule, where(en), "recheck-under-lock:%s" % variant,
              "every path from orc_once_mutex_lock() to `return FALSE` re-reads the once state (%s branch of orconce.h)" % variant,
              "orc_once_enter (%s branch of orconce.h) can take the once mutex and return FALSE (line %s) without reading the state again: a thread "
              "that saw `not initialised` before it got the mutex initialises although another thread has done so in the meantime - the wrapper is "
              "initialised twice and earlier callers keep the first object" % (variant, bad.line if bad is not None else "?"), line=bad.line if bad is not None else None)


def run(ctx):
    db = ctx.db()
    rep = ctx.report
    rep.explanation = (
        "Lock and publication discipline decided over the CFGs: must-hold analysis of the global mutex at every access to the "
        "code-memory allocator's shared state (with requires-lock summaries for static helpers all of whose callers hold it); "
        "lock/unlock pairing on every path of every function that takes a mutex, including the documented asymmetric protocol of "
        "orc_once_enter/orc_once_leave; order of value store / release store / unlock and of acquire load / value load in the once "
        "protocol (C11-atomics branch selected by this build); who-may-write for process-wide registries against the call graph "
        "reachable from the compile and run entry points (indirect calls resolved through function-pointer slots); atomicity of "
        "locations read outside and written inside a mutex. Absence of all races and correctness of concurrent results are NOT decided.")
    rep.assumptions += ["the C11 atomics branch of orconce.h is the one compiled (checked: AtomicExpr present)",
                        "objects freshly allocated in a function and not yet linked into shared structures need no lock",
                        "function-static once flags (`static int inited; if (inited) return; inited = 1;`) in functions that are also run from orc_init are initialisation, not compile-path writes"]
    cg = CallGraph(db)

    d1(db, rep)

    # ---- D2 -------------------------------------------------------------------
    n2 = 0
    seen = set()
    for f in list(db.all_functions()) + [db.tus[t].fn[x] for t in db.tus for x in ("orc_once_enter", "orc_once_leave") if x in db.tus[t].fn][:2]:
        if (f.name, f.tu.base) in seen or f.name in LOCK:
            continue
        seen.add((f.name, f.tu.base))
        for mutex in ("global", "once"):
            if not any(c.name in LOCK and LOCK[c.name][0] == mutex for c in f.calls()):
                continue
            rep.saw(f)
            n2 += 1
            if f.name == "orc_once_enter":
                ex = LockState(f, mutex).exit_states()
                ok = ex == {(1, False), (0, True)}
                rep.check(ok, "D2-LOCK-PAIRING", where(f), mutex, "returns TRUE unlocked and FALSE holding the once mutex (protocol with orc_once_leave)",
                          "orc_once_enter exit states (return value, once mutex held) = %s; the protocol needs {(1, unlocked), (0, locked)}" % sorted(ex, key=str))
            elif f.name == "orc_once_leave":
                ex = LockState(f, mutex, entry_held=True).exit_states()
                rep.check(all(not h for _, h in ex) and bool(ex), "D2-LOCK-PAIRING", where(f), mutex, "releases the once mutex on every path",
                          "orc_once_leave can return with the once mutex still held")
            else:
                ex = LockState(f, mutex).exit_states()
                rep.check(all(not h for _, h in ex) and bool(ex), "D2-LOCK-PAIRING", where(f), mutex,
                          "%s mutex released on every path to the exit" % mutex,
                          "%s can return with the %s mutex still held" % (f.name, mutex))
    if n2 < 5:
        raise AnalysisBroken("only %d lock-using functions found" % n2)

    # ---- D3 -------------------------------------------------------------------
    tu_any = next(t for t in db.tus.values() if "orc_once_leave" in t.fn)
    lv, en = tu_any.fn["orc_once_leave"], tu_any.fn["orc_once_enter"]
    rep.saw(lv)
    rep.saw(en)
    st_val = [n for n in lv.walk() if n.k == "BinaryOperator" and n.op == "=" and (access_path(n.c[0]) or "").endswith("->value")]
    st_flag = [n for n in lv.walk() if n.k == "AtomicExpr" and n.get("aop") == "store"]
    unl = [c for c in lv.calls("orc_once_mutex_unlock")]
    if not st_flag:
        raise AnalysisBroken("orc_once_leave: no atomic store (another branch of orconce.h compiled?)")
    ok = bool(st_val and unl) and lv.dominates(st_val[0], st_flag[0]) and lv.dominates(st_flag[0], unl[0]) and st_flag[0].get("order") in (3, 4, 5)
    rep.check(ok, "D3-PUBLICATION", where(lv), "value;release-store;unlock",
              "value stored before the release store of `inited`, which precedes the unlock (memory order %s)" % st_flag[0].get("order"),
              "orc_once_leave publishes in the wrong order or with a memory order weaker than release (order=%s): a reader can see inited != 0 with a stale value" % st_flag[0].get("order"))
    once_enter_value_guarded(db, rep, "D3-PUBLICATION")
    # D10: double-checked locking in orc_once_enter, in the branch this build compiles and in the pre-C11 (__sync) branch that code
    # including the installed header with -std=gnu99 gets
    once_recheck_under_lock(en, rep, "D10-ONCE-RECHECK", "as built")
    sdb99 = ctx.snippet_db("once99", "#include <orc/orconce.h>\nvoid *orcverif_use (OrcOnce *o) { void *v; if (orc_once_enter (o, &v)) return v; orc_once_leave (o, 0); return 0; }\n",
                           flags="-std=gnu99")
    t99 = next((t for t in sdb99.tus.values() if "orc_once_enter" in t.fn), None)
    if t99 is None:
        raise AnalysisBroken("orconce.h compiled with -std=gnu99 defines no orc_once_enter")
    en99, lv99 = t99.fn["orc_once_enter"], t99.fn["orc_once_leave"]
    if any(n.k == "AtomicExpr" for n in en99.walk()):
        raise AnalysisBroken("-std=gnu99 did not select the pre-C11 branch of orconce.h")
    once_recheck_under_lock(en99, rep, "D10-ONCE-RECHECK", "pre-C11 __sync")
    sv99 = [n for n in lv99.walk() if n.k == "BinaryOperator" and n.op == "=" and (access_path(n.c[0]) or "").endswith("->value")]
    sf99 = [n for n in lv99.walk() if _state_read(n)]
    un99 = [c for c in lv99.calls("orc_once_mutex_unlock")]
    rep.check(bool(sv99 and sf99 and un99) and lv99.dominates(sv99[0], sf99[0]) and lv99.dominates(sf99[0], un99[0]), "D10-ONCE-RECHECK", where(lv99),
              "value;sync-op;unlock:pre-C11 __sync",
              "orc_once_leave (pre-C11 branch): value stored, then the full-barrier __sync operation that marks the state, then the unlock",
              "orc_once_leave (pre-C11 branch) does not store the value before the __sync operation that publishes the state, or unlocks before it")

    compiler_state_fresh(db, rep, "D11-COMPILER-STATE-FRESH")
    d12_no_touch_after_chunk_release(db, rep)
    # ---- D4 -------------------------------------------------------------------
    run_roots = ["orc_program_compile", "orc_program_compile_for_target", "orc_target_get_default", "orc_program_compile_full", "orc_executor_run", "orc_executor_run_backup", "orc_executor_emulate",
                 "orc_code_free", "orc_program_free", "orc_program_reset", "orc_parse_code", "orc_bytecode_from_program"]
    init_roots = ["orc_init"]
    reach_run = cg.reachable(run_roots, stop=("orc_init",))
    reach_init = {(f.name, f.tu.base) for f in cg.reachable(init_roots)}
    rep.extra["compile_run_slice_functions"] = len(reach_run)
    if len(reach_run) < 400:
        raise AnalysisBroken("compile/run slice has only %d functions (indirect calls unresolved?)" % len(reach_run))
    viol = 0
    checked = 0
    for f in reach_run:
        for n, kind, key in writes_of(f):
            isreg = (kind == "global" and key in REGISTRIES) or (kind == "field" and key in REGISTRY_FIELDS)
            # target / rule-set / opcode-set descriptors are process-wide objects (static or registered once): a store to any of
            # their fields during a compile is a store to shared state
            if kind == "field" and key[0] in DESCRIPTOR_RECORDS:
                isreg = True
            if kind == "global" and key not in REGISTRIES:
                # any other process-wide mutable: static once flags etc.
                g = None
                for gg in f.tu.globals:
                    if gg["name"] == key:
                        g = gg
                if g is None or g.get("const"):
                    continue
                isreg = True
            if not isreg:
                continue
            checked += 1
            # once-flag idiom: function also runs during init and guards itself with a static flag
            once_guarded = False
            if (f.name, f.tu.base) in reach_init:
                for m in f.walk():
                    if m.k == "IfStmt" and m.c[0] is not None and atom(m.c[0], True)[1] is True and atom(m.c[0], True)[0] is not None and atom(m.c[0], True)[0].k == "DeclRefExpr" and atom(m.c[0], True)[0].get("dk") == "static_local":
                        thn = m.c[1]
                        if thn is not None and any(x.k == "ReturnStmt" for x in thn.walk()) and f.dominates(m.c[0], n):
                            once_guarded = True
            # callers of f on the run path all go through a once-guarded function?
            if not once_guarded:
                via = _only_via_once_guard(cg, f, reach_init)
                once_guarded = via
            # allocator state is lock-protected (D1)
            if kind == "global" and key in PROTECTED_GLOBALS:
                continue
            # any other process-wide variable written only with the global mutex held (here, or by every caller) is protected too
            init_only = lambda g: (g.name, g.tu.base) in reach_init and (g.name, g.tu.base) not in reach_run
            if LockState(f, "global").held_at(n) is True or requires_lock(db, f, "global", serialised=init_only):
                rep.ok("D4-WHO-MAY-WRITE", where(f), "%s" % (key if kind == "global" else "%s.%s" % key), "written with the global mutex held")
                continue
            if once_guarded:
                rep.ok("D4-WHO-MAY-WRITE", where(f), "%s" % (key if kind == "global" else "%s.%s" % key), "written only under a function-static once flag first run from orc_init")
                continue
            viol += 1
            rep.violation("D4-WHO-MAY-WRITE", where(f), "%s" % (key if kind == "global" else "%s.%s" % key),
                          "process-wide state `%s` is written by %s, which is reachable from the compile/run entry points without any lock: concurrent compiles race on it" %
                          (key if kind == "global" else "%s.%s" % key, f.name), line=n.line)
    rep.check(viol == 0, "D4-WHO-MAY-WRITE", "orc/", "compile-run-slice",
              "%d functions reachable from compile/run entry points; %d stores to process-wide state examined, none unprotected" % (len(reach_run), checked),
              "%d unprotected stores to process-wide state on the compile/run path" % viol)
    # registries: every writer is on the init path or is the public registration API
    REG_API = {"orc_target_register", "orc_opcode_register_static", "orc_rule_set_new", "orc_rule_register", "orc_debug_set_level",
               "orc_debug_set_print_function", "orc_x86_register_extension"}
    for f in db.all_functions():
        if not f.relfile.startswith("orc/"):
            continue
        for n, kind, key in writes_of(f):
            if (kind == "global" and key in REGISTRIES) or (kind == "field" and key in REGISTRY_FIELDS):
                ok = (f.name, f.tu.base) in reach_init or f.name in REG_API
                rep.check(ok, "D4-REGISTRY-WRITERS", where(f), "%s" % (key if kind == "global" else "%s.%s" % key),
                          "registry written on the init path / by the registration API",
                          "registry `%s` written by %s, which is neither reachable from orc_init nor a registration entry point" % (key, f.name), line=n.line)
    rep.floor("D4-REGISTRY-WRITERS", 15)

    # ---- D5 -------------------------------------------------------------------
    n5 = 0
    for f in db.all_functions():
        if not any(c.name in LOCK and LOCK[c.name][1] == 1 for c in f.calls()):
            continue
        for mutex in ("global", "once"):
            ls = LockState(f, mutex)
            if not any(c.name in LOCK and LOCK[c.name][0] == mutex for c in f.calls()):
                continue
            written_inside = {}
            for n, kind, key in writes_of(f):
                if kind == "global" and ls.held_at(n):
                    written_inside[key] = n
            for key, wn in written_inside.items():
                for n in f.walk():
                    if n.k == "DeclRefExpr" and n.name == key and n.get("dk") in ("global", "static_local"):
                        par = n.parent
                        is_write = par is not None and par.k in ("BinaryOperator", "CompoundAssignOperator") and par.op in ASSIGN_OPS and strip_casts(par.c[0]) is n
                        if is_write or ls.held_at(n) is not False:
                            continue
                        n5 += 1
                        atomic = "_Atomic" in n.ty or "atomic" in n.ty
                        rep.check(atomic, "D5-ATOMIC-FLAG", where(f), key,
                                  "read outside the mutex is of atomic type",
                                  "`%s` (type %s) is read outside the %s mutex and written inside it: a data race in the C11 sense (double-checked locking on a plain variable)" %
                                  (key, n.ty, mutex), line=n.line)
    rep.ok("D5-ATOMIC-FLAG", "orc/", "scan", "%d unlocked reads of lock-written variables found in lock-taking functions" % n5)

    d9_shared_code_readonly(db, rep)

    # ---- D6: library initialisation is serialised ----------------------------------
    oi = db.func("orc_init", "orc")
    rep.saw(oi)
    ls = LockState(oi, "global")
    inits = []
    for c in oi.calls():
        if not c.name or c.name in LOCK:
            continue
        tgt = cg.byname.get(c.name)
        if not tgt:
            continue
        if any(True for g in cg.reachable([c.name]) for _n, kind, _k in writes_of(g) if kind == "global"):
            inits.append(c)
    if len(inits) < 5:
        raise AnalysisBroken("orc_init: only %d initialiser calls recognised" % len(inits))
    fco = Facts(oi)

    def once_region(c):
        """inside `if (!orc_once_enter (...)) { ... orc_once_leave (...) }`: serialised by the once mutex."""
        ent = any(x[0] != "switch" and strip_casts(x[0]).k == "CallExpr" and strip_casts(x[0]).name == "orc_once_enter" and x[1] is False for x in fco.conds(c))
        return ent and not any(oi.dominates(l, c) for l in oi.calls("orc_once_leave"))
    for c in inits:
        rep.check(ls.held_at(c) is True or once_region(c), "D6-INIT-SERIALISED", where(oi), "%s-under-lock" % c.name,
                  "%s() runs with the global mutex held" % c.name,
                  "orc_init calls %s() without holding the global mutex: a second thread entering orc_init concurrently either runs the "
                  "initialisers again or returns and uses a half-initialised library" % c.name, line=c.line)
    # the once flag: static local tested in orc_init
    flags = {n.name for n in oi.walk() if n.k == "DeclRefExpr" and n.get("dk") == "static_local"}
    for fl in sorted(flags):
        reads_unlocked = [n for n in oi.walk() if n.k == "DeclRefExpr" and n.name == fl and ls.held_at(n) is not True and
                          not (n.parent is not None and n.parent.k in ("BinaryOperator", "CompoundAssignOperator") and n.parent.op in ASSIGN_OPS and strip_casts(n.parent.c[0]) is n)]
        sets = [n for n, kind, key in writes_of(oi) if kind == "global" and key == fl and not (n.k == "BinaryOperator" and strip_casts(n.c[1]).v == 0)]
        if not sets:
            raise AnalysisBroken("orc_init: the once flag %s is never set" % fl)
        for st in sets:
            pos = oi.pos(st)
            later = [c for c in inits if oi.pos(c) and (oi.pos(c)[0] in oi.reachable_blocks(pos[0]) and not (oi.pos(c)[0] == pos[0] and oi.pos(c)[1] < pos[1]))]
            held_through = ls.held_at(st) is True and not reads_unlocked
            # publishing early is harmless only while every reader needs the mutex and the setter keeps it until the initialisers are done
            unlocked_between = [c for c in later if ls.held_at(c) is not True and not once_region(c)]
            ok = not later or (held_through and not unlocked_between)
            rep.check(ok, "D6-INIT-SERIALISED", where(oi), "%s-set-after-init" % fl,
                      "the once flag is published only after the initialisers (or under a mutex every reader takes and that is kept until they finish)",
                      "orc_init sets `%s` before %s has run and a concurrent caller can observe it (flag read without the mutex, or mutex dropped "
                      "before the initialisers finish): that caller returns from orc_init into an uninitialised library" % (fl, ", ".join(sorted({c.name for c in later}))[:120]),
                      line=st.line)

    # ---- D7: generated wrappers keep no per-call state in static storage ---------------------------
    # The wrappers orcc writes are called concurrently by applications.  Everything a call works on (the executor with
    # its arrays, parameters and loop counters) has to live in the caller's frame; the only function-static objects
    # a wrapper may declare are immutable tables and the once control that guards the shared, read-only code pointer.
    import re as _re
    otu = db.tu("orcc")
    emit = [otu.fn.get(nm) for nm in ("output_code_execute", "output_program_generation", "output_init_function")]
    emit = [f for f in emit if f is not None]
    if not emit or otu.fn.get("output_code_execute") is None:
        raise AnalysisBroken("tools/orcc.c: output_code_execute not found")
    nst = 0
    nex = 0
    for f in emit:
        rep.saw(f)
        for c in f.calls("fprintf"):
            a = c.args()
            lit = strip_casts(a[1]) if len(a) > 1 else None
            txt = lit.get("str", "") if lit is not None and lit.k == "StringLiteral" else ""
            if _re.search(r"\bOrcExecutor\b[^;]*;", txt):
                nex += 1
            m = _re.match(r"^\s+static\s+(.*)$", txt)          # indented: a declaration inside the generated function body
            if not m:
                continue
            nst += 1
            decl = m.group(1)
            ok = decl.startswith("const ") or _re.match(r"OrcOnce\b", decl) is not None
            rep.check(ok, "D7-WRAPPER-STATE", where(f), "static %s" % decl.split("=")[0].strip()[:40],
                      "function-static object in a generated wrapper is immutable or the once control",
                      "orcc emits `static %s` inside a generated wrapper: the object is shared by every thread that calls the wrapper "
                      "(an executor, its arrays, parameters and loop counters must be per call)" % decl.strip()[:60], line=c.line)
    if nst < 2 or nex < 1:
        raise AnalysisBroken("orcc wrapper emitter: %d block-scope static declarations, %d executor declarations found" % (nst, nex))
    # once pairing at the emitter: after the emission of `orc_once_enter` every path of output_code_execute emits `orc_once_leave`
    from flow import paths_avoiding as _pa
    oce = otu.fn["output_code_execute"]

    def _emits(word):
        def pred(e_):
            if e_.k != "CallExpr" or e_.name != "fprintf" or len(e_.args()) < 2:
                return False
            l_ = strip_casts(e_.args()[1])
            return l_ is not None and l_.k == "StringLiteral" and word in l_.get("str", "")
        return pred
    ents = [c for c in oce.calls("fprintf") if _emits("orc_once_enter")(c)]
    if not ents:
        raise AnalysisBroken("output_code_execute: no emission of orc_once_enter")
    for c in ents:
        wpath = _pa(oce, c, _emits("orc_once_leave"))
        rep.check(wpath is None, "D7-WRAPPER-STATE", where(oce), "once-leave-emitted@%d" % ents.index(c),
                  "every wrapper that enters the once protocol also leaves it",
                  "orcc can emit a wrapper that calls orc_once_enter and never orc_once_leave: the first caller keeps the once mutex for ever and "
                  "every other thread blocks in orc_once_enter", line=c.line)

    if ctx.tier == "thorough":
        d8(ctx, rep)


def _only_via_once_guard(cg, f, reach_init, depth=0):
    """every caller chain of f (within 4 levels) passes through a function that
    guards itself with a function-static once flag and also runs from orc_init."""
    if depth > 4:
        return False
    callers = []
    for g in cg.byname.values():
        for h in g:
            if f.name in cg.callees(h) and h is not f:
                callers.append(h)
    if not callers:
        return False
    for h in callers:
        guarded = False
        if (h.name, h.tu.base) in reach_init:
            for m in h.walk():
                if m.k == "IfStmt" and m.c[0] is not None and atom(m.c[0], True)[1] is True and atom(m.c[0], True)[0] is not None and atom(m.c[0], True)[0].k == "DeclRefExpr" and atom(m.c[0], True)[0].get("dk") == "static_local":
                    if m.c[1] is not None and any(x.k == "ReturnStmt" for x in m.c[1].walk()):
                        # the call to f must come after the guard
                        for c in h.calls(f.name):
                            if h.dominates(m.c[0], c):
                                guarded = True
        if not guarded and not _only_via_once_guard(cg, h, reach_init, depth + 1):
            return False
    return True


def d8(ctx, rep):
    """thorough tier: the wrappers orcc (built from this tree) generates for the test corpus are analysed as C code:
    once pairing on every path, no mutable function-static state, executor on the stack.  The generator is executed (as the
    build does); the generated functions are not."""
    import os, subprocess
    from flow import paths_avoiding, atom as _atom
    bdir = ctx.builddir
    p = subprocess.run(["ninja", "-C", bdir, "tools/orcc"], stdout=subprocess.PIPE, stderr=subprocess.STDOUT, text=True)
    orcc = os.path.join(bdir, "tools", "orcc")
    if p.returncode != 0 or not os.path.exists(orcc):
        raise AnalysisBroken("could not build orcc in scratch: " + p.stdout[-500:])
    env = dict(os.environ, LD_LIBRARY_PATH=os.path.join(bdir, "orc"))
    prelude = ("#include <stdint.h>\ntypedef uint8_t guint8; typedef int8_t gint8; typedef uint16_t guint16; typedef int16_t gint16;\n"
               "typedef uint32_t guint32; typedef int32_t gint32; typedef uint64_t guint64; typedef int64_t gint64; typedef float gfloat; typedef double gdouble;\n")
    nfun = nonce = 0
    for rel, opts in (("testsuite/test.orc", ["--lazy-init"]), ("testsuite/test.orc", []), ("orc/orcfunctions.orc", ["--lazy-init"]),
                      ("testsuite/test.orc", ["--lazy-init", "--no-backup"])):
        src = os.path.join(ctx.repo, rel)
        out = os.path.join(ctx.scratch, "gen8.c")
        r = subprocess.run([orcc] + opts + ["--implementation", "-o", out, src], env=env, stdout=subprocess.PIPE, stderr=subprocess.STDOUT, text=True)
        if r.returncode != 0:
            raise AnalysisBroken("orcc failed on %s %s: %s" % (rel, opts, r.stdout[-300:]))
        tag = "gen8_%s_%s" % (os.path.basename(rel).replace(".", "_"), "_".join(o.strip("-").replace("-", "") for o in opts) or "plain")
        sdb = ctx.snippet_db(tag, prelude + open(out).read())
        tu = sdb.tu(tag)
        for f in tu.main_functions():
            execs = [d for d in f.walk() if d.k == "VarDecl" and (d.get("ty") or "").replace("struct ", "").strip() in ("OrcExecutor", "_OrcExecutor")]
            if not execs:
                continue
            nfun += 1
            w = "tools/orcc.c (generated %s %s)" % (rel, " ".join(opts))
            inst = f.name
            statics = [d for d in f.walk() if d.k == "VarDecl" and d.get("static")]
            badst = [d for d in statics if not ((d.get("ty") or "").startswith("const ") or "OrcOnce" in (d.get("ty") or "") or "volatile int" in (d.get("ty") or ""))]
            rep.check(not badst and not any(d.get("static") for d in execs), "D8-GENERATED-WRAPPERS", w, "%s:no-static-state" % inst,
                      "wrapper keeps its executor on the stack and no mutable static object",
                      "generated wrapper %s declares static %s: shared between concurrent callers" % (f.name, [(d.name, d.get("ty")) for d in badst + [e for e in execs if e.get("static")]]))
            enters = [c for c in f.calls("orc_once_enter")]
            leaves = [c for c in f.calls("orc_once_leave")]
            if not enters:
                rep.check(not leaves, "D8-GENERATED-WRAPPERS", w, "%s:no-once" % inst, "no once protocol in this wrapper", "orc_once_leave without orc_once_enter in %s" % f.name)
                continue
            nonce += 1
            fc = Facts(f)
            ok = len(enters) == 1 and len(leaves) == 1
            if ok:
                e, l = enters[0], leaves[0]
                def in_false_branch(node, e=e):
                    """node lies in the branch of `if (<enter call>)` taken when orc_once_enter returned FALSE."""
                    prev, x = node, node.parent
                    while x is not None:
                        if x.k == "IfStmt" and x.c[0] is not None:
                            n_, pol = _atom(x.c[0], True)
                            if n_ is not None and n_.id == e.id:
                                if prev is x.c[1]:
                                    return pol is False          # then-branch of `if (!enter)`
                                if len(x.c) > 2 and prev is x.c[2]:
                                    return pol is True           # else-branch of `if (enter)`
                        prev, x = x, x.parent
                    return False
                guarded = in_false_branch(l)

                def only_false(b, idx, e=e, f=f):
                    blk = f.blocks[b]
                    if blk.cond is None:
                        return True
                    n_, pol = _atom(blk.cond, True)
                    if n_ is not None and n_.id == e.id:
                        ek = f.edge_kind(b, idx)
                        return ek is None or ek != pol        # enter returned FALSE
                    return True
                escape = paths_avoiding(f, e, lambda x: x.k == "CallExpr" and x.name == "orc_once_leave", edge_filter=only_false)
                compiled = [c for c in f.calls() if c.name and c.name.startswith("orc_program_compile")]
                between = bool(compiled) and all(in_false_branch(c) and f.dominates(c, l) for c in compiled)
                ok = guarded and escape is None and between
            rep.check(ok, "D8-GENERATED-WRAPPERS", w, "%s:once-pairing" % inst,
                      "enter(FALSE) -> compile -> leave on every path, leave nowhere else",
                      "generated wrapper %s does not pair orc_once_enter/orc_once_leave on every path (enters %d, leaves %d)" % (f.name, len(enters), len(leaves)))
    rep.extra["generated_wrappers_analysed"] = nfun
    if nfun < 100 or nonce < 50:
        raise AnalysisBroken("only %d generated wrappers (%d with the once protocol) were analysed" % (nfun, nonce))


def d9_shared_code_readonly(db, rep):
    """D9: one compiled function may be run by many executors at once.  Everything a run writes must belong to the executor (or
    be local): a store through a pointer to the shared OrcCode / OrcProgram (or into their variable tables) in the run or
    emulation path is a data race between concurrent calls - and lets one call compute with another call's values."""
    SHARED = ("OrcCode", "OrcCodeVariable", "OrcProgram", "OrcVariable", "struct _OrcCode", "struct _OrcProgram")
    n = 0
    tu = db.tu("orcexecutor")
    for fn in ("orc_executor_emulate", "orc_executor_run", "orc_executor_run_backup"):
        f = tu.fn[fn]
        rep.saw(f)
        bad = []
        for x in f.walk():
            if x.k in ("BinaryOperator", "CompoundAssignOperator") and x.op.endswith("=") and x.op not in ("==", "!=", "<=", ">="):
                l = strip_casts(x.c[0])
                y = l
                while y is not None and y.k in ("MemberExpr", "ArraySubscriptExpr", "UnaryOperator", "ParenExpr", "CStyleCastExpr"):
                    if y.k == "MemberExpr" and y.get("arrow") and y.c:
                        bt = (y.c[0].ty or "").replace("const ", "").replace("*", "").strip()
                        if bt in SHARED:
                            bad.append((x, unparse(l)[:50], bt))
                            break
                    y = y.c[0] if y.c else None
        n += 1
        rep.check(not bad, "D9-SHARED-CODE-READONLY", where(f), "writes@%s" % fn,
                  "%s stores only into the executor and its own locals" % fn,
                  "%s stores into `%s`, reached through a pointer to the shared %s: two executors running the same code at once overwrite each other's "
                  "value there (the second call computes with the first call's parameters)" % ((fn, bad[0][1], bad[0][2]) if bad else ("", "", "")),
                  line=bad[0][0].line if bad else f.line)
    return n


def d12_no_touch_after_chunk_release(db, rep, rule="D12-NO-TOUCH-AFTER-RELEASE"):
    """"Concurrent compilation and freeing of different programs behave as if serialised."  orc_code_chunk_free puts the chunk back
    into the shared pool (under the global mutex); from the moment it returns, another thread's compile may have been handed the
    same bytes and may already have copied its machine code there.  The thread that released the chunk must not touch that memory
    again: after a call of orc_code_chunk_free (X->chunk) no path may reach a store, memset or memcpy through X->code / X->exec
    (the chunk's memory).  (Shared with C09: "its bytes stay exactly as emitted until it is freed" - of the NEXT owner.)"""
    n = 0
    for f in db.all_functions():
        rel = [c for c in {c.id: c for c in f.calls()}.values() if c.name == "orc_code_chunk_free" and c.args()]
        for c in rel:
            a = access_path(strip_casts(c.args()[0])) or ""
            if not a.endswith("->chunk"):
                continue
            obj = a[:-len("->chunk")]
            n += 1
            rep.saw(f)
            mem = ("%s->code" % obj, "%s->exec" % obj)

            def touches(e):
                if e.k == "CallExpr" and e.name in ("memset", "memcpy", "memmove", "__builtin_memset", "__builtin_memcpy", "__builtin___memset_chk",
                                                      "__builtin___memcpy_chk") and e.args():
                    return (access_path(strip_casts(e.args()[0])) or "") in mem
                if e.k in ("BinaryOperator", "CompoundAssignOperator") and e.op in ASSIGN_OPS:
                    l = strip_casts(e.c[0])
                    if l is not None and l.k in ("ArraySubscriptExpr", "UnaryOperator"):
                        return any((access_path(y) or "") in mem for y in l.walk())
                return False
            # anything reachable after the release
            pos = f.pos(c)
            bad = None
            if pos is not None:
                seen, stack = set(), []
                blk = f.blocks[pos[0]]
                for e in blk.el[pos[1] + 1:]:
                    if touches(e) and bad is None:
                        bad = e
                stack.extend(s_ for s_ in blk.succs if s_ is not None)
                while stack and bad is None:
                    b = stack.pop()
                    if b in seen:
                        continue
                    seen.add(b)
                    for e in f.blocks[b].el:
                        if touches(e) and bad is None:
                            bad = e
                    stack.extend(s_ for s_ in f.blocks[b].succs if s_ is not None)
            rep.check(bad is None, rule, where(f), "%s@%s" % (f.name, c.line), "the chunk's memory is not touched after the chunk went back to the pool",
                      "%s writes into `%s` (line %s) after orc_code_chunk_free (line %s) has returned the chunk to the shared pool: another thread's compile may "
                      "already own those bytes and have copied its machine code there - it is overwritten, outside any lock" %
                      (f.name, mem[0], bad.line if bad else "?", c.line), line=bad.line if bad else c.line)
    if n < 1:
        raise AnalysisBroken("no release of a code object's chunk found")
    return n
