"""C05 — compilation terminates, classifies its result, never corrupts memory.

  D1 R-CAP   every append to a fixed-capacity table whose fill level is driven
             by API input is dominated by a capacity test (armed table:
             tables/c05_rcap.json; other appends are reported as information)
  D1b        the x86 code buffer: each per-instruction encoding loop tests the
             fill level of compiler->code before it encodes
  D2 R-TYPE  result-classification typestate of orc_compiler_compile_program
  D3 R-LOOP  definite divergence / skippable equality exit over all library loops
"""
import json
import os

from facts import AnalysisBroken, access_path, strip_casts, unparse, ASSIGN_OPS
from flow import Facts, paths_avoiding, describe_path
from rules_common import rcap, where
import loops


def _null_edge(f, b, idx, suffix):
    """edge idx of block b is the one on which the pointer `..suffix` tested by the block's condition is NULL (any spelling)"""
    from flow import atom
    blk = f.blocks[b]
    ek = f.edge_kind(b, idx)
    if blk.cond is None or ek not in (True, False):
        return False
    n, pol = atom(blk.cond, ek)
    return n is not None and (access_path(n) or "").endswith(suffix) and pol is False


def load_table(ctx):
    with open(os.path.join(ctx.verif, "tables", "c05_rcap.json")) as f:
        return json.load(f)


def array_key(db, func, apath):
    """'<Record>.<field>' of the array an access path names, or the global's name."""
    if apath is None:
        return None
    if "->" not in apath and "." not in apath:
        return apath
    # find a MemberExpr in func with this path to learn the record
    for n in func.walk():
        if n.k == "MemberExpr" and access_path(n) == apath and n.get("rec"):
            return "%s.%s" % (n.get("rec").lstrip("_"), n.name)
    return apath


def run(ctx):
    db = ctx.db()
    rep = ctx.report
    rep.explanation = (
        "Structural necessary conditions of 'compilation terminates, classifies its result and never corrupts memory', "
        "decided over the CFG of every function of the library (all backends): D1 appends to fixed-capacity tables are dominated "
        "by a capacity comparison (R-CAP, with own-check / caller-check / search-or-append / append-helper idioms); D1b the x86 "
        "encoders test the code-buffer fill level inside their per-instruction loops; D2 typestate of "
        "orc_compiler_compile_program (JIT pointer stored only after the chunk test and after a fresh compiler->error test, "
        "fallback pointer stored before any error exit, zero result rewritten on the error exit); D3 no loop is definitely "
        "divergent and no loop's only exit is an equality that feasible operand values skip. Abort-freedom (ORC_ASSERT "
        "reachability), and termination of loops whose progress depends on run-time values, are NOT decided.")
    rep.assumptions += [
        "capacity macros/array bounds are the ones clang evaluates for this build configuration",
        "R-CAP verdicts only for the tables listed as armed in tables/c05_rcap.json (fill level driven by API input); "
        "other unbounded appends are listed as information",
        "value sets for the equality-exit rule are may-sets from table initialisers and field stores",
    ]
    table = load_table(ctx)
    armed_t, unarmed_t = table["armed"], table["unarmed"]

    # ---- positive controls ------------------------------------------------
    fx = ctx.fixture_db(["rcap", "loops", "fmtlen", "carve"])
    from driver import Report
    frep = Report("fixture")
    for f in fx.tu("rcap").main_functions():
        rcap(fx, f, frep, rule="FX")
    got = {o[1].split("|")[0].split("::")[1]: o[2] for o in frep.obligations}
    want = {"append_bad": "VIOLATED", "append_good": "held", "slot_bad": "VIOLATED", "slot_good": "held",
            "find_or_add_bad": "VIOLATED", "find_or_add_good": "held"}
    if got != want:
        raise AnalysisBroken("R-CAP positive control failed: %s" % got)
    frep = Report("fixture")
    lf = fx.tu("loops").main_functions()
    loops.classify_and_judge(fx, lf, frep, rule="FXL")
    loops.judge_equality_exits(fx, lf, frep, rule="FXE")
    st = {(o[0], o[1].split("|")[0].split("::")[1]): o[2] for o in frep.obligations}
    if st.get(("FXL", "spin")) != "VIOLATED" or st.get(("FXE", "bad")) != "VIOLATED" or st.get(("FXL", "good")) != "held":
        raise AnalysisBroken("R-LOOP positive control failed: %s" % st)
    frep = Report("fixture")
    loops.judge_rotation_searches(fx, lf, frep, rule="FXR")
    loops.judge_shift_searches(fx, lf, frep, rule="FXS")
    st = {(o[0], o[1].split("|")[0].split("::")[1]): o[2] for o in frep.obligations}
    if st != {("FXR", "rot_bad"): "VIOLATED", ("FXR", "rot_good"): "held", ("FXS", "log2_bad"): "VIOLATED", ("FXS", "log2_good"): "held"}:
        raise AnalysisBroken("rotation / shift search positive control failed: %s" % st)
    from rules_common import check_snprintf_lengths as _csl
    frep = Report("fixture")
    _csl(fx, fx.tu("fmtlen").main_functions(), frep, "FXF")
    st = {o[1].split("|")[0].split("::")[1]: o[2] for o in frep.obligations}
    if st != {"fmt_bad": "VIOLATED", "fmt_good": "held"}:
        raise AnalysisBroken("snprintf-length positive control failed: %s" % st)
    from rules_common import check_block_offsets as _cbo
    frep = Report("fixture")
    _cbo(fx, fx.tu("carve").main_functions(), frep, "FXC")
    st = {o[1].split("|")[0].split("::")[1]: o[2] for o in frep.obligations}
    if st != {"carve_bad": "VIOLATED", "carve_good": "held"}:
        raise AnalysisBroken("block-offset positive control failed: %s" % st)
    rep.extra["positive_controls"] = "fixtures/carve.c (short and exact block); fixtures/fmtlen.c (bad, clamped, strlen twins); fixtures/rcap.c (3 bad + 3 good twins), fixtures/loops.c (divergent, equality-exit, good): all as expected"

    libfuncs = [f for f in db.all_functions() if f.relfile.startswith("orc/")]
    if len(libfuncs) < 1500:
        raise AnalysisBroken("only %d library functions extracted" % len(libfuncs))

    # ---- D1 ---------------------------------------------------------------
    seen_arrays = set()

    def armed(apath, func):
        k = array_key(db, func, apath)
        seen_arrays.add(k)
        if k in armed_t:
            return True
        return False

    for f in libfuncs:
        rcap(db, f, rep, rule="D1-R-CAP", armed=armed)
    # every armed table must have been met by at least one append site
    obl_arrays = set()
    for o in rep.obligations:
        if o[0] == "D1-R-CAP":
            obl_arrays.add(o[1])
    for k in armed_t:
        if k not in seen_arrays:
            raise AnalysisBroken("armed table %s has no append site any more (anchor drifted)" % k)
    rep.floor("D1-R-CAP", 30)

    d1b(db, rep)
    d2(db, rep)
    scalar_operand_checked(db, rep, "D1h-SCALAR-OPERAND-CHECKED")
    array_operand_checked(db, rep, "D1j-ARRAY-OPERAND-CHECKED")
    counter_unchanged_on_refusal(db, rep, "D1k-COUNTER-ON-REFUSAL")
    no_abort_on_program_value(db, rep, "D1l-NO-ABORT-ON-VALUE")
    label_cursor_reset(db, rep, "D1m-LABEL-CURSOR-RESET")
    __import__("importlib").import_module("rules.c14").growth_covers_need(db, rep, "D1n-GROWTH-COVERS-NEED")
    d3c_unroll_bounded(db, rep)
    d1i_divisor_positive(db, rep)

    # ---- D3 ---------------------------------------------------------------
    n = loops.classify_and_judge(db, libfuncs, rep, rule="D3-R-LOOP")
    ne = loops.judge_equality_exits(db, libfuncs, rep, rule="D3-R-LOOP-EQ")
    loops.judge_rotation_searches(db, libfuncs, rep, rule="D3-R-LOOP-ROTATE")
    loops.judge_shift_searches(db, libfuncs, rep, rule="D3-R-LOOP-SHIFT")      # no instance on today's tree: the fixture twins are the positive control
    rep.extra["loops_classified"] = n
    rep.extra["equality_exit_loops"] = ne
    rep.floor("D3-R-LOOP", 800)


def d1i_divisor_positive(db, rep, rule="D1i-DIVISOR-POSITIVE"):
    """D1i: "without crashing".  Sizes and alignments of variables are ints taken as they are from the construction API and
    from the .orc text.  An integer `/` or `%` whose divisor is such an attribute (OrcVariable.size / .alignment) traps when
    the divisor is 0, and when it is -1 and the dividend INT_MIN.  At every such operation in the library a must-fact has to
    bound the divisor from below by 1; a mere non-zero test is enough only where the dividend is an address."""
    from flow import lower_bound
    n = 0
    for f in db.all_functions():
        if not f.relfile.startswith("orc/") or f.body is None:
            continue
        fc = None
        for x in f.walk():
            if x.k not in ("BinaryOperator", "CompoundAssignOperator") or x.op not in ("/", "%", "/=", "%="):
                continue
            d = strip_casts(x.c[1])
            if d is None or d.v is not None or d.k != "MemberExpr" or d.name not in ("size", "alignment") or "OrcVariable" not in (d.get("rec") or ""):
                continue
            fc = fc or Facts(f)
            conds = fc.conds(x)
            path = access_path(d)
            lb = lower_bound(conds, path)
            nonzero = any(c_[0] != "switch" and access_path(strip_casts(c_[0])) == path and c_[1] for c_ in conds)
            addr = any(y.k == "CStyleCastExpr" and "ptr" in (y.get("toty") or "") for y in x.c[0].walk()) or "*" in (strip_casts(x.c[0]).ty or "") \
                or any(y.k == "CStyleCastExpr" and "long" in (y.get("toty") or "") for y in x.c[0].walk())
            n += 1
            rep.saw(f)
            ok = (lb is not None and lb >= 1) or (nonzero and addr)
            rep.check(ok, rule, where(f), "%s:%s%s@%s" % (f.name, x.op, path, x.line),
                      "the divisor `%s` is known to be %s here" % (path, ">= 1" if lb else "non-zero (address dividend)"),
                      "%s evaluates `%s` where `%s` - a size/alignment stored as the application or the .orc text gave it - is not known to be positive: "
                      "0 traps, and so does -1 with INT_MIN (`.source -1 s1 align 0x80000000`): the compile dies with SIGFPE" % (f.name, unparse(x)[:60], path), line=x.line)
    if n < 2:
        raise AnalysisBroken("only %d divisions by a variable's size/alignment found" % n)
    return n


def d3c_unroll_bounded(db, rep, rule="D3c-UNROLL-BOUNDED"):
    """D3c: "returns a result code in bounded time".  A loop of a code generator that runs once per ELEMENT the program was
    declared for (program->constant_n / constant_m, any int the application or the .orc text chooses) emits code on each
    iteration: compile time and memory grow with the VALUE of n, and at 2^31 elements orc_realloc fails and aborts.  Such a loop
    is acceptable only under a must-fact that bounds the count by a constant (the back end's unrolling cutoff)."""
    from flow import upper_bound, reaching_defs
    MAG = ("constant_n", "constant_m")
    n = 0
    for f in db.all_functions():
        if not f.relfile.startswith("orc/") or f.body is None:
            continue
        if not any(x.k == "MemberExpr" and x.name in MAG for x in f.walk()):
            continue
        fc = None
        for lp in [x for x in f.walk() if x.k in ("WhileStmt", "ForStmt", "DoStmt")]:
            cond = lp.c[0] if lp.k == "WhileStmt" else (lp.c[1] if lp.k == "ForStmt" and len(lp.c) > 1 else (lp.c[1] if lp.k == "DoStmt" and len(lp.c) > 1 else None))
            if cond is None or strip_casts(cond) is None or strip_casts(cond).v is not None:
                continue
            names = set()
            for y in cond.walk():
                if y.k == "MemberExpr" and y.name in MAG:
                    names.add(access_path(y))
                if y.k == "DeclRefExpr" and y.get("dk") == "local":
                    for d in reaching_defs(f, y.name, lp):
                        src = d.c[1] if d.k == "BinaryOperator" else (d.c[0] if d.c else None)
                        if src is not None and any(z.k == "MemberExpr" and z.name in MAG for z in src.walk()):
                            names.add(y.name)
                            names |= {access_path(z) for z in src.walk() if z.k == "MemberExpr" and z.name in MAG}
            if not names:
                continue
            fc = fc or Facts(f)
            conds = fc.conds(lp)
            ub = [upper_bound(conds, nm) for nm in names if nm]
            ub = [u for u in ub if u is not None]
            n += 1
            rep.saw(f)
            rep.check(bool(ub), rule, where(f), "loop@%s:%s" % (f.name, "/".join(sorted(x for x in names if x))),
                      "the per-element loop runs only where the element count is known to be <= %s" % (min(ub) if ub else "?"),
                      "%s repeats code generation once per declared element (`%s`, line %s) without an upper bound on the element count: `.n 2000000000` makes the "
                      "compile run for minutes, allocate gigabytes and finally abort in orc_realloc, instead of returning a result" %
                      (f.name, unparse(cond)[:60], lp.line), line=lp.line)
    if n < 1:
        raise AnalysisBroken("no per-element code generation loop (bounded by constant_n) found")
    return n


def counter_unchanged_on_refusal(db, rep, rule):
    """An append function that refuses (table full: error recorded, early return) must leave the element counter as it was:
    other code trusts the counter as the number of valid entries (orc_compiler_compile_program frees the names of
    vars[T1 + n_temp_vars .. + n_dup_vars], loops run to n_insns, n_constants ...).  A counter bumped before the capacity test
    counts the refused slot too: the clean-up walks past the table.  For every function of the compiler / program construction
    units that has an early `return` under a test involving a counter field and records an error on that path, no increment of
    that counter may lie on a path from the entry to that return."""
    from flow import path_to, single_defs
    n = 0
    for tub in ("orccompiler", "orcprogram"):
        for f in db.tu(tub).main_functions():
            sd = None
            for ifs in [x for x in f.walk() if x.k == "IfStmt" and len(x.c) > 1 and x.c[1] is not None]:
                rets = [r for r in ifs.c[1].walk() if r.k == "ReturnStmt"]
                errs = [c for c in ifs.c[1].walk() if c.k == "CallExpr" and c.name in ("orc_compiler_error", "orc_program_set_error")]
                if not rets or not errs:
                    continue
                sd = sd or single_defs(f)
                counters = set()
                todo = [ifs.c[0]]
                seen = set()
                while todo:
                    e = todo.pop()
                    for y in e.walk():
                        if y.k == "MemberExpr" and (y.name or "").startswith("n_") and y.get("arrow"):
                            counters.add(access_path(y))
                        if y.k == "DeclRefExpr" and y.get("dk") == "local" and y.name in sd and y.name not in seen:
                            seen.add(y.name)
                            todo.append(sd[y.name])
                if not counters:
                    continue
                n += 1
                rep.saw(f)
                bad = None
                for cp in sorted(counters):
                    inc = lambda e, cp=cp: (e.k == "UnaryOperator" and e.op in ("++",) and access_path(e.c[0]) == cp) or \
                        (e.k == "CompoundAssignOperator" and e.op == "+=" and access_path(e.c[0]) == cp)
                    # is the return reachable AFTER an increment?  i.e. not every path to it is increment-free
                    for r in rets:
                        incs = [x for x in f.walk() if inc(x)]
                        for x in incs:
                            px, pr = f.pos(x), f.pos(r)
                            if px is None or pr is None:
                                continue
                            if pr[0] in f.reachable_blocks(px[0]) and not (px[0] == pr[0] and px[1] > pr[1]):
                                # reachable in the CFG; exclude the loop-carried case where the function itself loops (none here)
                                if not any(l.k in ("ForStmt", "WhileStmt", "DoStmt") for l in x.ancestors()):
                                    bad = (cp, x, r)
                rep.check(bad is None, rule, where(f), "%s:%s" % (f.name, "/".join(sorted(c.split("->")[-1] for c in counters))),
                          "the refusal path leaves %s unchanged" % ", ".join(sorted(counters)),
                          "%s increments `%s` (line %s) before the capacity test that can still refuse the entry (return at line %s): the counter then counts a "
                          "slot that was never filled, and the code that trusts it - the clean-up of duplicated temporaries, loops over the table - walks past "
                          "the end (free of garbage pointers, SIGSEGV in orc_program_compile)" %
                          (f.name, bad[0] if bad else "", bad[1].line if bad else "", bad[2].line if bad else ""), line=bad[1].line if bad else None)
    if n < 6:
        raise AnalysisBroken("only %d refusing append functions found" % n)
    return n


def array_operand_checked(db, rep, rule):
    """Load opcodes (ORC_STATIC_OPCODE_LOAD without INVARIANT: loadX, loadoffX, loadupdb/ib, ldres*) read an ARRAY, store
    opcodes write one: the back ends take the array's address from ex->arrays[variable] (or the pointer register allocated
    for array variables).  For a temporary that slot holds nothing, so the generated code dereferences garbage although the
    compile succeeded.  orc_compiler_check_sizes must refuse a TEMP in the array position; its error branches are evaluated
    as expressions for those two shapes (as in scalar_operand_checked).  Shared with C03: such code reads or writes memory
    no element of the program refers to."""
    from exprval import NotPure, evaluate
    from loops import counted
    f = db.func("orc_compiler_check_sizes", "orccompiler")
    rep.saw(f)
    LOAD, STORE = db.macro_int("ORC_STATIC_OPCODE_LOAD"), db.macro_int("ORC_STATIC_OPCODE_STORE")
    TEMP = db.enum("ORC_VAR_TYPE_TEMP")
    errs = []
    for x in f.walk():
        if x.k != "IfStmt" or len(x.c) < 2 or x.c[1] is None or not any(y.k == "ReturnStmt" for y in x.c[1].walk()):
            continue
        if not any(y.k == "BinaryOperator" and y.op == "=" and (access_path(y.c[0]) or "").endswith("->result") for y in x.c[1].walk()):
            continue
        lv = {}
        for a in x.ancestors():
            if a.k == "ForStmt":
                cl = counted(a)
                if cl:
                    lv[cl["var"]] = "src" if any(y.k == "MemberExpr" and y.name == "src_size" for y in (a.c[1].walk() if a.c[1] is not None else [])) or \
                        any(y.k == "MemberExpr" and y.name == "src_size" for y in a.walk()) and not any(y.k == "MemberExpr" and y.name == "dest_size" for y in a.walk()) else \
                        ("dest" if any(y.k == "MemberExpr" and y.name == "dest_size" for y in a.walk()) and not any(y.k == "MemberExpr" and y.name == "src_size" for y in a.walk()) else "outer")
        errs.append((x, lv))
    if len(errs) < 4:
        raise AnalysisBroken("orc_compiler_check_sizes: only %d error branches found" % len(errs))

    def fires(env, kind):
        for x, lv in errs:
            e = dict(env)
            inner = [v for v, k in lv.items() if k == kind]
            others = [v for v, k in lv.items() if k in ("src", "dest") and k != kind]
            if others:
                continue
            for v in inner:
                e[v] = 0
            try:
                if evaluate(x.c[0], e):
                    return x
            except (NotPure, ValueError, ZeroDivisionError):
                continue
        return None
    base = {"insn->flags": 0, "multiplier": 1, "compiler->vars[].vartype": TEMP, "compiler->vars[].size": 1,
            "opcode->src_size[]": 1, "opcode->dest_size[]": 1, "opcode->src_size[0]": 1, "opcode->src_size[1]": 0, "opcode->dest_size[0]": 1}
    for nm, env, kind, ex in (("load", dict(base, **{"opcode->flags": LOAD}), "src", "loadb t2, t1"), ("store", dict(base, **{"opcode->flags": STORE}), "dest", "storeb t1, t2")):
        rep.check(fires(env, kind) is not None, rule, where(f), "array-operand:%s" % nm,
                  "a %s opcode whose array operand is a temporary is refused" % nm,
                  "orc_compiler_check_sizes lets `%s` through - a %s opcode whose array operand is a temporary: the back ends take its address from "
                  "ex->arrays[variable], which holds nothing for a temporary; the compile succeeds and the code dereferences garbage" % (ex, nm), line=f.line)


def scalar_operand_checked(db, rep, rule):
    """An opcode flagged ORC_STATIC_OPCODE_SCALAR takes its LAST source from a parameter or constant: source 1 of a two-source
    opcode (shifts), source 0 of a one-source opcode (loadpX).  The back ends rely on it - their rules for these opcodes end in
    ORC_ASSERT(0) / ORC_COMPILER_ERROR for anything else - and orc_compiler_check_sizes is what enforces it for programs that
    reach a back end.  Its error branches are evaluated as expressions for the two shapes with a TEMP variable in the scalar
    position: one of them must fire.  (Shared with C14: the parser accepts `loadpw t1, t2`; the compile must refuse it.)"""
    from exprval import NotPure, evaluate
    from loops import counted
    f = db.func("orc_compiler_check_sizes", "orccompiler")
    rep.saw(f)
    SC = db.macro_int("ORC_STATIC_OPCODE_SCALAR")
    TEMP = db.enum("ORC_VAR_TYPE_TEMP")
    errs = []
    for x in f.walk():
        if x.k != "IfStmt" or len(x.c) < 2 or x.c[1] is None:
            continue
        if not any(y.k == "ReturnStmt" for y in x.c[1].walk()):
            continue
        if not any(y.k == "BinaryOperator" and y.op == "=" and (access_path(y.c[0]) or "").endswith("->result") for y in x.c[1].walk()):
            continue
        loopvars = set()
        for a in x.ancestors():
            if a.k == "ForStmt":
                cl = counted(a)
                if cl:
                    loopvars.add(cl["var"])
        errs.append((x, loopvars))
    if len(errs) < 4:
        raise AnalysisBroken("orc_compiler_check_sizes: only %d error branches found" % len(errs))
    srcloop = None
    for lp in [x for x in f.walk() if x.k == "ForStmt"]:
        cl = counted(lp)
        if cl and any(y.k == "MemberExpr" and y.name == "src_size" for y in lp.walk()) and not any(z.k == "ForStmt" and z is not lp for z in lp.walk()):
            srcloop = cl["var"]
    if srcloop is None:
        raise AnalysisBroken("orc_compiler_check_sizes: loop over the sources not found")

    def fires(env, jval):
        for x, lv in errs:
            e = dict(env)
            if srcloop in lv:
                if jval is None:
                    continue
                e[srcloop] = jval
            try:
                if evaluate(x.c[0], e):
                    return x
            except (NotPure, ValueError, ZeroDivisionError):
                continue
        return None
    base = {"opcode->flags": SC, "insn->flags": 0, "multiplier": 1, "compiler->vars[].vartype": TEMP, "compiler->vars[].size": 2,
            "opcode->src_size[]": 2, "opcode->dest_size[]": 2, "opcode->src_size[0]": 2}
    two = dict(base, **{"opcode->src_size[1]": 2})
    one = dict(base, **{"opcode->src_size[1]": 0})
    # two sources: the check fires at j = 1;  one source: in the loop at j = 0, or after it
    ok2 = fires(two, 1) is not None
    ok1 = fires(one, 0) is not None or fires(one, None) is not None
    # ... and whatever kind a source is, the variable it is loaded into has multiplier * src_size bytes: beyond ORC_MAX_VAR_SIZE the
    # emulator's per-variable scratch block (ORC_MAX_VAR_SIZE bytes per element) is too small.  A parameter or constant is loaded
    # into a temporary of that size (orc_compiler_rewrite_insns), so it is no exception: `x4 convlw d1, p1` (4 x 4 = 16 bytes).
    maxv = db.macro_int("ORC_MAX_VAR_SIZE")
    for kind in ("PARAM", "CONST", "TEMP"):
        wide = dict(base, **{"opcode->flags": 0, "multiplier": 4, "opcode->src_size[]": maxv // 2, "opcode->src_size[0]": maxv // 2, "opcode->src_size[1]": 0,
                             "opcode->dest_size[]": maxv // 4, "compiler->vars[].size": maxv, "compiler->vars[].vartype": db.enum("ORC_VAR_TYPE_" + kind)})
        okw = fires(wide, 0) is not None
        rep.check(okw, rule, where(f), "wide-source:%s" % kind.lower(),
                  "a source of %d bytes (x4, %d-byte opcode operand) is refused also when it is a %s" % (2 * maxv, maxv // 2, kind.lower()),
                  "orc_compiler_check_sizes lets an instruction through whose source operand is multiplier * src_size = %d bytes wide when the operand is a "
                  "%s (`x4 convlw d1, p1`): it is loaded into a compiler temporary of that size, twice ORC_MAX_VAR_SIZE - the compile succeeds and "
                  "emulation writes past the temporary's scratch block (heap corruption)" % (2 * maxv, kind.lower()), line=f.line)
    for nm, ok, ex in (("two-source", ok2, "shlw d, s, t"), ("one-source", ok1, "loadpw t1, t2")):
        rep.check(ok, rule, where(f), "scalar-operand:%s" % nm,
                  "a %s SCALAR opcode whose scalar operand is a temporary is refused (ORC_COMPILE_RESULT_UNKNOWN_PARSE)" % nm,
                  "orc_compiler_check_sizes lets a %s opcode flagged SCALAR through although its scalar operand is neither a parameter nor a constant "
                  "(`%s`): the program reaches the back end, whose rule for it ends in ORC_ASSERT(0) - orc_program_compile aborts the process" % (nm, ex),
                  line=f.line)


def d1b(db, rep):
    """x86 code buffer: the two loops that encode output_insns[] must test the
    fill level of compiler->code inside the loop before encoding."""
    tu = db.tu("orcx86insn")
    encoders = {"orc_x86_insn_output_opcode", "orc_vex_insn_codegen", "orc_x86_insn_output_modrm",
                "orc_x86_insn_output_immediate"}
    found = 0
    for f in tu.main_functions():
        for lp in f.walk():
            if lp.k not in loops.LOOPS:
                continue
            init, cond, inc, body = loops.loop_parts(lp)
            calls = [c for c in body.walk() if c.k == "CallExpr" and c.name in encoders] if body is not None else []
            if not calls:
                continue
            found += 1
            rep.saw(f)
            # a guard: some test involving p->codeptr (directly or via a static
            # predicate helper) must dominate the first encoder call inside the loop
            first = min(calls, key=lambda c: (c.line, c.id))
            fc = Facts(f)
            ok = False
            detail = ""
            for c in fc.conds(first):
                if c[0] == "switch":
                    continue
                cn, pol = c
                if cn.line < lp.line:
                    continue
                txt = unparse(cn)
                if "codeptr" in txt:
                    ok = True
                    detail = txt
                elif cn.k == "CallExpr" and cn.name and cn.name in tu.fn:
                    h = tu.fn[cn.name]
                    body_txt = unparse(h.body)
                    if "codeptr" in body_txt and ("ORC_COMPILER_CODE_BUFFER_SIZE" in " ".join(m for x in h.walk() for m in x.mac) or "65536" in body_txt):
                        ok = True
                        detail = "%s() compares codeptr - code with the buffer size" % cn.name
            rep.check(ok, "D1b-CODEBUF", where(f), "encode-loop@%s" % f.name,
                      "per-instruction encoding loop is guarded: " + detail,
                      "loop encodes x86 instructions into compiler->code without comparing codeptr with the 64 KiB buffer size",
                      line=lp.line)
    if found < 2:
        raise AnalysisBroken("expected >=2 x86 encoding loops in orcx86insn.c, found %d" % found)
    # word emitters of back ends for which a legal program is known to exceed the buffer (mips: replay/c05_mips_codebuf.c; the
    # arm/neon and powerpc emitters have the same shape but no program reaching 64 KiB is known - they are not judged)
    bufsize = db.macro_int("ORC_COMPILER_CODE_BUFFER_SIZE")
    nw = 0
    for tub, fn in (("orcmips", "orc_mips_emit"),):
        g = db.func(fn, tub)
        rep.saw(g)
        stores = [n for n in g.walk() if n.k == "BinaryOperator" and n.op == "=" and "codeptr" in unparse(n.c[0]) and
                  strip_casts(n.c[0]) is not None and strip_casts(n.c[0]).k in ("ArraySubscriptExpr", "UnaryOperator")]
        if not stores:
            raise AnalysisBroken("%s: no store through compiler->codeptr found" % fn)
        gf = Facts(g)
        for st in stores[:1]:
            nw += 1
            okb = False
            for c_ in gf.conds(st):
                if c_[0] == "switch":
                    continue
                cn, pol = c_
                if cn.k == "BinaryOperator" and cn.op in ("<", "<=", ">", ">=") and "codeptr" in unparse(cn):
                    k = strip_casts(cn.c[1]).v if strip_casts(cn.c[1]).v is not None else strip_casts(cn.c[0]).v
                    if k is not None and k + 4 <= bufsize:
                        okb = True
            rep.check(okb, "D1b-CODEBUF", where(g), "word-emitter@%s" % fn,
                      "the instruction word is stored only where codeptr - code is known to leave room for it",
                      "%s stores an instruction word through compiler->codeptr without comparing the fill level with the %d-byte code buffer: a long "
                      "(legal) program overflows the heap block" % (fn, bufsize), line=st.line)
    # the buffer really has the size the guard assumes
    cp = db.func("orc_compiler_compile_program", "orccompiler")
    size = None
    for n in cp.walk():
        if n.k == "BinaryOperator" and n.op == "=" and access_path(n.c[0]) == "compiler->code":
            r = strip_casts(n.c[1])
            if r.k == "CallExpr" and r.name == "orc_malloc":
                size = r.args()[0].v
    try:
        want = db.macro_int("ORC_COMPILER_CODE_BUFFER_SIZE")
    except AnalysisBroken:
        want = None
    rep.check(size is not None and (want is None or size == want) and size >= 4096, "D1b-CODEBUF", where(cp), "buffer-size",
              "compiler->code allocated with %s bytes (guard constant %s)" % (size, want),
              "compiler->code allocation size %s does not match the guard constant %s" % (size, want))


def fcx_conds(f, n):
    from flow import Facts as _F
    if not hasattr(f, "_fcx"):
        f._fcx = _F(f)
    return f._fcx.conds(n)


def d2(db, rep):
    f = db.func("orc_compiler_compile_program", "orccompiler")
    rep.saw(f)
    w = where(f)
    fc = Facts(f, call_kills=True)
    stores = []
    for n in f.walk():
        if n.k == "BinaryOperator" and n.op == "=" and access_path(n.c[0]) == "program->code_exec":
            r = strip_casts(n.c[1])
            rt = unparse(r)
            kind = "backup" if rt == "program->backup_func" else "emulate" if "orc_executor_emulate" in rt else "jit"
            stores.append((n, kind, rt))
    if not stores:
        raise AnalysisBroken("no store to program->code_exec in orc_compiler_compile_program")
    jit = [s for s in stores if s[1] == "jit"]
    if not jit:
        raise AnalysisBroken("no JIT store to program->code_exec found")
    # label error
    err_blocks = [b.id for b in f.blocks.values() if b.lab and b.lab.get("k") == "label" and b.lab.get("name") == "error"]
    if len(err_blocks) != 1:
        raise AnalysisBroken("expected exactly one `error:` label, found %d" % len(err_blocks))
    eb = err_blocks[0]
    fplain = Facts(f)
    for n, kind, rt in jit:
        conds = fplain.conds(n)
        chunk_ok = any(c[0] != "switch" and "orccode->chunk" in unparse(c[0]) and
                       ((c[0].k == "BinaryOperator" and c[0].op == "==" and c[1] is False) or
                        (c[0].k == "BinaryOperator" and c[0].op == "!=" and c[1] is True) or
                        (c[0].k == "MemberExpr" and c[1] is True)) for c in conds)
        rep.check(chunk_ok, "D2a-JIT-AFTER-CHUNK", w, "code_exec=%s" % rt,
                  "JIT pointer stored only on paths where orccode->chunk != NULL was established",
                  "program->code_exec = %s is reachable without a successful `orccode->chunk` test: code_exec may point at unallocated code" % rt,
                  line=n.line)
        err_ok = any(c[0] != "switch" and unparse(c[0]) == "compiler->error" and c[1] is False for c in fc.conds(n))
        rep.check(err_ok, "D2e-ERROR-TESTED", w, "code_exec=%s" % rt,
                  "compiler->error was tested (false) after the last call that can set it",
                  "JIT pointer stored although compiler->error has not been tested since the last phase call (target->compile ...): a failed compile would be classified as success",
                  line=n.line)
        # no path from the store to error:
        pos = f.pos(n)
        reach = f.reachable_blocks(pos[0])
        rep.check(eb not in reach, "D2a-NO-ERROR-AFTER-JIT", w, "code_exec=%s" % rt,
                  "error exit unreachable after the JIT store", "the `error:` exit is reachable after the JIT pointer was stored", line=n.line)
        # JIT store reaches only success returns: return value is compiler->result copy
    # (b) every path entry -> error: passes a fallback store
    fb = [s[0] for s in stores if s[1] in ("backup", "emulate")]
    fbset = set(x.id for x in fb)

    def is_fb(e):
        return e.id in fbset
    # search from entry for a path to eb avoiding fallback stores
    from collections import deque
    seen = set()
    dq = deque([(f.entry, (f.entry,))])
    witness = None
    while dq:
        b, path = dq.popleft()
        if b in seen:
            continue
        seen.add(b)
        blk = f.blocks[b]
        if any(is_fb(e) for e in blk.el):
            continue
        if b == eb:
            witness = path
            break
        for s in blk.succs:
            if s is not None:
                dq.append((s, path + (s,)))
    rep.check(witness is None, "D2b-FALLBACK-BEFORE-ERROR", w, "error-exit",
              "every path to `error:` first stores backup_func / orc_executor_emulate into code_exec",
              "a path reaches `error:` without code_exec having been set to a fallback: %s" % (describe_path(f, list(witness)) if witness else ""))
    # (c) zero result rewritten on the error exit
    rets = [n for n in f.walk() if n.k == "ReturnStmt" and n.c and f.pos(n) and eb in f.dom().get(f.pos(n)[0], ())]
    if not rets:
        raise AnalysisBroken("no return statement dominated by the error label")
    for r in rets:
        rv = access_path(r.c[0])
        ok = False
        for n in f.walk():
            if n.k == "IfStmt":
                c = strip_casts(n.c[0])
                if c.k == "BinaryOperator" and c.op == "==" and access_path(c.c[0]) == rv and strip_casts(c.c[1]).v == 0:
                    asg = [x for x in n.c[1].walk() if x.k == "BinaryOperator" and x.op == "=" and access_path(x.c[0]) == rv
                           and strip_casts(x.c[1]).v not in (None, 0)]
                    if asg and f.dominates(c, r) and f.pos(c) and eb in f.dom().get(f.pos(c)[0], ()):
                        ok = True
        rep.check(ok, "D2c-NONZERO-ON-ERROR", w, "return %s" % rv,
                  "a zero result is rewritten to a non-success code before the error exit returns",
                  "the error exit can return 0 (ORC_COMPILE_RESULT_OK): `if (%s == 0) %s = <failure>` is missing" % (rv, rv), line=r.line)
    # D1c: formatted-output lengths
    from rules_common import check_snprintf_lengths
    nfmt = check_snprintf_lengths(db, [f for f in db.all_functions() if f.relfile.startswith("orc/") or f.relfile.startswith("tools/")], rep, "D1c-FMT-LENGTH")
    rep.extra["snprintf_result_uses_judged"] = nfmt
    # D1e: element K of the instruction array is read only where n_insns > K is known (entries beyond the count are zero)
    import prefixread
    ne = prefixread.check(db, [g for g in db.all_functions() if g.relfile.startswith("orc/")], rep, "D1e-PREFIX-READ", where)
    rep.extra["constant_index_reads_of_insns"] = ne
    if ne < 3:
        raise AnalysisBroken("only %d constant-index reads of an insns[] array found" % ne)
    # D1f: no NULL is entered into the code-region table (a failed mapping must leave later compiles able to fall back)
    import importlib as _il
    _il.import_module("rules.c09").region_entries_nonnull(db, rep, "D1f-REGION-NONNULL")
    # D1g: "a successful result leaves callable code": the short/long branch decision of the x86 assembler is exact
    from x86enc import check_rel8_predicates
    nr8 = check_rel8_predicates(db, rep, "D1g-REL8-EXACT")
    if nr8 < 2:
        raise AnalysisBroken("only %d rel8 range predicates found in the x86 assembler" % nr8)
    # D1d: slots carved out of a constant-size heap block lie inside it (instances on the unchanged tree: none; control: fixtures/carve.c)
    from rules_common import check_block_offsets
    rep.extra["block_offset_sites_judged"] = check_block_offsets(db, [g for g in db.all_functions() if g.relfile.startswith("orc/") or g.relfile.startswith("tools/")], rep, "D1d-BLOCK-OFFSET")
    from rules_common import check_code_exec_nonnull
    check_code_exec_nonnull(db, rep, "D2h-FALLBACK-NONNULL")
    # (f) the flags that force the fallback are tested before code memory is requested
    alloc = [c for c in f.calls("orc_code_allocate_codemem")]
    if not alloc:
        raise AnalysisBroken("orc_code_allocate_codemem is no longer called from orc_compiler_compile_program")
    for a in alloc:
        conds = Facts(f).conds(a)
        txts = [(unparse(c[0]), c[1]) for c in conds if c[0] != "switch"]
        em = any(("_orc_compiler_flag_emulate" in t) and pol is False for t, pol in txts)
        tg = any(t == "(target == (void *)0)" and pol is False for t, pol in txts) or any(t == "target" and pol is True for t, pol in txts)
        rep.check(em, "D2f-EMULATE-FLAG", w, "orc_code_allocate_codemem",
                  "code memory requested only when _orc_compiler_flag_emulate is clear",
                  "orc_code_allocate_codemem reachable with _orc_compiler_flag_emulate set (ORC_CODE=emulate / failed init probe)", line=a.line)
        rep.check(tg, "D2f-TARGET-NULL", w, "orc_code_allocate_codemem",
                  "code memory requested only with a non-NULL target",
                  "orc_code_allocate_codemem reachable with target == NULL", line=a.line)
    # (g) the success return hands back compiler->result read AFTER compile
    # every return not dominated by error: either the early parse return or `return result` with result = compiler->result
    for r in [n for n in f.walk() if n.k == "ReturnStmt" and n.c]:
        if r in rets:
            continue
        e = strip_casts(r.c[0])
        if e.v is not None:
            rep.check(e.v != 0, "D2g-RETURNS", w, "early-return=%s" % e.v,
                      "early return hands back a non-success constant", "early return of ORC_COMPILE_RESULT_OK before compiling", line=r.line)
        else:
            rep.ok("D2g-RETURNS", w, "return %s" % unparse(e), "success exit returns the compiler's result")
    # (j) "any other [non-fatal, non-successful] result leaves the program runnable by emulation": the emulator needs the code object.
    # Every jump to the error exit that can happen before program->orccode is created must end in a FATAL result: the error exit
    # turns the result into a fatal one where program->orccode is NULL (must-fact at the assignment), or no such early jump exists.
    creates = [n for n in f.walk() if n.k == "BinaryOperator" and n.op == "=" and (access_path(n.c[0]) or "").endswith("program->orccode")
               and strip_casts(n.c[1]) is not None and strip_casts(n.c[1]).k == "CallExpr"]
    gotos = [n for n in f.walk() if n.k == "GotoStmt" and n.name == "error"]
    if not creates or not gotos:
        raise AnalysisBroken("orc_compiler_compile_program: creation of the code object / jumps to the error exit not found")
    early = [g for g in gotos if not any(f.dominates(c_, g) for c_ in creates)]
    FATAL = db.macro("ORC_COMPILE_RESULT_IS_FATAL")
    fatal_fix = []
    for n in f.walk():
        if n.k == "BinaryOperator" and n.op == "=" and access_path(n.c[0]) == "result" and strip_casts(n.c[1]).v is not None and strip_casts(n.c[1]).v >= 0x200:
            if any(c_[0] != "switch" and c_[1] is False and (access_path(strip_casts(c_[0])) or "").endswith("program->orccode") for c_ in fcx_conds(f, n)) or \
                    any(c_[0] != "switch" and "orccode" in unparse(c_[0]) and "0" in unparse(c_[0]) for c_ in fcx_conds(f, n)):
                fatal_fix.append(n)
    rep.check(not early or bool(fatal_fix), "D2j-NO-CODE-IS-FATAL", w, "error-exit",
              "%d jumps to the error exit precede the creation of the code object; the exit makes the result fatal where program->orccode is NULL" % len(early),
              "orc_compiler_compile_program can reach its error exit before program->orccode exists (e.g. line %s) and still return a non-fatal result: the "
              "caller is told the program falls back to emulation, but orc_executor_emulate has nothing to run and aborts" % (early[0].line if early else "?"),
              line=early[0].line if early else None)
    # (i) "a fatal result leaves no executable code": whatever an earlier compile installed is released, and code_exec reset to the
    # fallback, before ANY return - also the early refusal of a program that carries an error
    drops = [n for n in f.walk() if n.k == "BinaryOperator" and n.op == "=" and (access_path(n.c[0]) or "").endswith("program->orccode") and strip_casts(n.c[1]).v == 0]
    resets = [n for n in f.walk() if n.k == "BinaryOperator" and n.op == "=" and (access_path(n.c[0]) or "").endswith("program->code_exec")]
    if not drops or not resets:
        raise AnalysisBroken("orc_compiler_compile_program: release of the old code object / reset of code_exec not found")
    fcx = Facts(f)
    for r in [n for n in f.walk() if n.k == "ReturnStmt"]:
        # the release is conditional on program->orccode being set: a return is fine if the store dominates it or the pointer is
        # known NULL there; code_exec must have been reassigned on every path
        from flow import path_to
        wit = path_to(f, r, lambda e: e.k == "BinaryOperator" and e.op == "=" and (access_path(e.c[0]) or "").endswith("program->code_exec"))
        wit2 = path_to(f, r, lambda e: (e.k == "CallExpr" and e.name == "orc_code_free") or
                       (e.k == "BinaryOperator" and e.op == "=" and (access_path(e.c[0]) or "").endswith("program->orccode")),
                       lambda b, idx: not _null_edge(f, b, idx, "program->orccode"))
        rep.check(wit is None and wit2 is None, "D2i-OLD-CODE-DROPPED", w, "return@%s" % r.line,
                  "the previous code object is released and code_exec reset on every path to this return",
                  "orc_compiler_compile_program can return (line %s) without having released the code object of an earlier compile / reset "
                  "program->code_exec: a refused or failed recompile leaves the old machine code installed although the result says otherwise" % r.line, line=r.line)


def no_abort_on_program_value(db, rep, rule):
    """"... returns a result code ... without crashing, aborting".  The value of a constant is whatever the program says (any
    64-bit pattern through orc_program_add_constant_int64 or a literal in the text).  No assertion failure (ORC_ASSERT expands
    to `if (!(c)) { ORC_ERROR (...); abort (); }`) on the compile path may therefore be controlled by a comparison of a
    variable's `.value`: such a site is an abort some program can reach.  Refusing the program (ORC_COMPILER_ERROR) is the
    library's way to say "not supported".  The same holds for the other fields a program sets freely and the compiler does not
    validate beforehand; only `.value` is armed, because sizes, alignments and operand kinds are checked by
    orc_compiler_check_sizes before a back end sees them (D1h, D1j)."""
    import re
    n = 0
    for f in db.all_functions():
        aborts = [c for c in f.calls() if c.name == "abort"]
        if not aborts:
            continue
        fc = Facts(f)
        seen = set()
        for c in aborts:
            if c.id in seen:
                continue
            seen.add(c.id)
            n += 1
            hit = None
            for cd in fc.conds(c):
                if cd[0] == "switch":
                    txt = unparse(cd[1])
                else:
                    txt = unparse(cd[0])
                if re.search(r"(\]|\)|>|\w)\s*(\.|->)\s*value\s*\.\s*(i|f|x2|x4)\b", txt):
                    hit = txt
            if hit is not None:
                rep.saw(f)
            rep.check(hit is None, rule, where(f), "%s@%s" % (f.name, c.line), "no assertion is controlled by the value of a program's constant",
                      "%s aborts the process (ORC_ASSERT, line %s) under the condition `%s` on a constant's value: the value is chosen by the program "
                      "(orc_program_add_constant_int64, a literal in .orc text), so a well-formed program makes orc_program_compile abort instead of "
                      "returning a result code" % (f.name, c.line, (hit or "")[:100]), line=c.line)
    if n < 60:
        raise AnalysisBroken("only %d assertion sites found" % n)
    return n


def label_cursor_reset(db, rep, rule):
    """compiler->labels[] / labels_int[] have ORC_N_LABELS entries; the back ends that number their labels with
    orc_compiler_label_new() (a cursor, n_labels) stay below that bound only if each emission pass starts from the same cursor.
    A back end that emits twice (altivec: the first pass discovers the pooled constants) clears the label table in between; it has
    to put the cursor back as well, or the second pass draws fresh numbers for every pooled constant and
    `compiler->labels[label] = ptr` stores past the table (3 + 2 x 20 > 40)."""
    n = 0
    for f in db.all_functions():
        clears = [c for c in f.calls() if c.name in ("memset", "__builtin_memset") and c.args() and (access_path(c.args()[0]) or "").endswith("->labels")]
        if clears and not any(c.name == "orc_compiler_label_new" for c in f.calls()):
            continue                # label numbers of this back end are constants of its skeleton (x86): no cursor to reset
        for c in clears:
            n += 1
            rep.saw(f)

            def release(e):
                if e.k == "BinaryOperator" and e.op == "=" and (access_path(e.c[0]) or "").endswith("->n_labels"):
                    return True
                return False

            def err_edge(b, idx):
                # the exit taken because the first pass already failed draws no label
                blk = f.blocks[b]
                return not (blk.cond is not None and "error" in unparse(blk.cond) and f.edge_kind(b, idx) is True)
            wit = paths_avoiding(f, c, release, edge_filter=err_edge)
            rep.check(wit is None, rule, where(f), "%s@%s" % (f.name, c.line), "a pass that clears the label table also resets the label cursor",
                      "%s clears compiler->labels for another emission pass (line %s) but leaves compiler->n_labels where the first pass left it: "
                      "every label drawn with orc_compiler_label_new in the first pass is drawn again with a new number, and with enough pooled "
                      "constants the number reaches ORC_N_LABELS - the label store writes past the table" % (f.name, c.line), line=c.line)
    if n < 1:
        raise AnalysisBroken("no back end clears the label table between passes any more (anchor drifted)")
    return n
