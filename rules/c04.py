"""C04 — the C source Orc generates computes what emulation computes (structural part).

  D1 R-EXH   every opcode of the sys table has a C rule registered in orc_c_init
  D2 R-TABLE the checked-in emulator is not stale: for every straight-line C rule
             the statement template (format literals as they appear in the AST of
             orcprogram-c.c on this run, with literal arguments substituted) equals
             the statements under the `/* k: <op> */` comment of emulate_<op>
  D3 R-WIDEN 64-bit parameters: the generated C (templates instantiated into a scratch unit) and the emulator both
             combine the two executor slots as zero-extended low | high << 32
  D4 R-TMPL  the text c_get_name_int writes for a constant operand evaluates, in int arithmetic, to that constant
             (instantiated for probe values and judged by the C front end's constant folding)
Value equivalence of compiled C and emulation is otherwise NOT decided.
"""
import re

from facts import AnalysisBroken, init_rows, strip_casts, unparse
from rules_common import where


def template_of(f):
    """normalised statement template of a straight-line C rule, or None."""
    if any(len(b.succs) > 1 for b in f.blocks.values()):
        return None
    parts = []
    for c in sorted(f.calls(), key=lambda c: (c.line, c.id)):
        if c.name in ("c_get_name_int", "c_get_name_float"):
            continue
        if c.name != "orc_compiler_append_code":
            return None
        a = c.args()
        lit = strip_casts(a[1])
        if lit.k != "StringLiteral":
            return None
        fmt = lit.get("str", "")
        vals = []
        for x in a[2:]:
            xs = strip_casts(x)
            if xs.k == "StringLiteral":
                vals.append(xs.get("str", ""))
            elif "char" in xs.ty:
                vals.append("@")
            else:
                vals.append("#")
        it = iter(vals)

        def sub(m):
            try:
                return next(it)
            except StopIteration:
                return "@"
        parts.append(re.sub(r"%[sd]", sub, fmt))
    return norm("".join(parts)) if parts else None


def norm(t):
    t = re.sub(r"\s+", "", t)
    return t


def norm_emu(t):
    t = re.sub(r"\s+", "", t)
    t = re.sub(r"\(\(orc_union64\*\)\(ex->src_ptrs\[\d\]\)\)->i", "@", t)
    t = re.sub(r"var\d+(\.x[24]f?\[\d\]|\.i|\.f)?", "@", t)
    return t


def emu_statements(src):
    """{function: {opname: normalised text under its `/* k: op */` comment}}"""
    out = {}
    for m in re.finditer(r"^emulate_(\w+) \(OrcOpcodeExecutor \*ex, int offset, int n\)\n\{(.*?)\n\}\n", src, re.S | re.M):
        name, body = m.group(1), m.group(2)
        chunks = re.split(r"/\* (\d+): (\w+) \*/", body)
        d = {}
        # chunks: [pre, k, op, text, k, op, text, ...]
        for i in range(1, len(chunks) - 2, 3):
            op, text = chunks[i + 1], chunks[i + 2]
            # cut at the end of the element loop / function tail
            text = re.split(r"\n  \}\n", text)[0]
            d.setdefault(op, []).append(norm_emu(text))
        out[name] = d
    return out


def run(ctx):
    db = ctx.db()
    rep = ctx.report
    rep.explanation = (
        "Agreement between the C generator and the checked-in emulator that was generated from it: every opcode of the sys table has a "
        "rule registered for the C target; for every straight-line C rule (all UNARY*/BINARY* macro families and the hand-written "
        "straight-line rules) the statement template built from the format literals in this run's AST of orcprogram-c.c equals, after "
        "replacing variable names by placeholders and removing white space, the statements the emulator carries under the rule's "
        "`/* k: op */` comment. Editing opcodes.h or a rule without regenerating orcemulateopcodes.c is therefore detected; reformatting "
        "both consistently is not. Rules with branches (loads, stores, parameter loads) are covered by C03-D1b. Value equivalence is NOT decided.")
    rep.assumptions += ["name placeholders: var<k>, var<k>.i/.f/.x2[..], and the scalar-parameter staging read are what c_get_name_int/float produce"]
    ctu = db.tu("orcprogram-c")
    rows = [r for r in init_rows(db.tu("orcopcodes-sys").global_("opcodes")) if isinstance(r, dict) and r.get("name")]
    init = db.func("orc_c_init", "orcprogram-c")
    rep.saw(init)
    regs = {}
    for c in init.calls("orc_rule_register"):
        a = c.args()
        nm = strip_casts(a[1]).get("str")
        fn = strip_casts(a[2])
        regs[nm] = fn.name if fn is not None and fn.k == "DeclRefExpr" else None
    if len(regs) < 150:
        raise AnalysisBroken("orc_c_init: only %d registrations recovered" % len(regs))
    # ---- D1 ------------------------------------------------------------------
    for r in rows:
        nm = r["name"]
        rep.check(nm in regs and regs[nm], "D1-R-EXH", where(init), "rule:%s" % nm, "C rule %s registered" % regs.get(nm),
                  "opcode `%s` has no rule for the C target: orcc cannot generate C (backup functions, Orc-free code) for any program using it" % nm)
    # ---- D2 ------------------------------------------------------------------
    src = ctx.read("orc/orcemulateopcodes.c")
    emu = emu_statements(src)
    if len(emu) < 150:
        raise AnalysisBroken("emulator source: only %d functions parsed" % len(emu))
    n2 = 0
    skipped = []
    for nm, fn in sorted(regs.items()):
        if fn is None or fn not in ctu.fn:
            continue
        f = ctu.fn[fn]
        t = template_of(f)
        if t is None:
            skipped.append(nm)
            continue
        if nm not in emu:
            rep.violation("D2-STALE", "orc/orcemulateopcodes.c", "emulate_%s" % nm, "no emulate_%s function in the checked-in emulator" % nm)
            continue
        got = emu[nm].get(nm)
        if not got:
            rep.violation("D2-STALE", "orc/orcemulateopcodes.c::emulate_%s" % nm, "stmt:%s" % nm, "emulate_%s has no `/* k: %s */` statement" % (nm, nm))
            continue
        n2 += 1
        rep.saw(f)
        rep.check(got[0] == t, "D2-STALE", "orc/orcemulateopcodes.c::emulate_%s" % nm, "stmt:%s" % nm,
                  "emulator statement equals the generator template `%s`" % t[:80],
                  "checked-in emulator is stale for `%s`: generator template is `%s`, emulator has `%s` (regenerate orcemulateopcodes.c)" % (nm, t[:160], got[0][:160]))
    rep.extra["rules_with_branches_not_compared"] = skipped
    if n2 < 140:
        raise AnalysisBroken("only %d straight-line rules compared" % n2)

    # ---- D3: 64-bit parameters are marshalled without sign extension ------------------------
    # The executor-based C (what a generated _backup_ function is made of) reassembles a 64-bit parameter from two int
    # slots; emulation (emulate_loadpq / orc_executor_emulate) does the same.  Both are judged by the same type-level rule:
    # the low half must be zero-extended before it is OR-ed with the shifted high half.
    from ctemplates import check_param_halves
    nt, nr = check_param_halves(ctx, db, rep, "D3-PARAM-HALVES")
    rep.extra["param_half_templates"] = nt

    # ---- D2b: the two spellings of an index-dependent rule compute the same thing ----------------------
    # Rules whose text depends on the element index exist twice: once for the emulator (index `offset + i`, a chunk at a
    # time) and once for generated C (index `i`).  Apart from that substitution the two literals must be identical; otherwise
    # generated C and emulation disagree while the regenerated emulator still matches the checked-in one.
    ctu_ = db.tu("orcprogram-c")
    npair = 0
    for f in ctu_.main_functions():
        if not f.name.startswith("c_rule_"):
            continue
        for iff in f.walk():
            if iff.k != "IfStmt" or iff.c[0] is None or not any(x.k == "DeclRefExpr" and x.name == "ORC_TARGET_C_OPCODE" for x in iff.c[0].walk()):
                continue
            if len(iff.c) < 3 or iff.c[2] is None:
                continue

            def lits(node):
                out = []
                for c in node.walk():
                    if c.k == "CallExpr" and c.name == "orc_compiler_append_code" and len(c.args()) > 1:
                        l = strip_casts(c.args()[1])
                        if l is not None and l.k == "StringLiteral":
                            out.append(l.get("str", ""))
                return out
            a_, b_ = lits(iff.c[1]), lits(iff.c[2])
            if not a_ or not b_ or not any("offset" in x for x in a_ + b_):
                continue
            emu_side, c_side = (a_, b_) if any("offset" in x for x in a_) else (b_, a_)
            norm = [x.replace("(offset + i)", "i").replace("offset + i", "i") for x in emu_side]
            npair += 1
            rep.check(sorted(norm) == sorted(c_side), "D2-BRANCH-AGREE", where(f), "emulation-vs-C-literal",
                      "the emulator spelling and the generated-C spelling differ only by offset + i -> i",
                      "%s emits different computations for the emulator and for generated C: `%s` vs `%s`" %
                      (f.name, [x.strip()[:110] for x in norm], [x.strip()[:110] for x in c_side]), line=iff.line)
    if npair < 6:
        raise AnalysisBroken("only %d emulator/C literal pairs found in orcprogram-c.c" % npair)

    # ---- D6: the loop bounds the generated C declares are the program's own ----------------------------
    # `int n = %d;` must be given constant_n and `int m = %d;` constant_m; the run-time forms read ex->n and
    # ex->params[ORC_VAR_A1] (the slot orcc stores m in).  A mix-up changes the number of rows/elements generated C
    # processes while emulation (which reads the executor) is unaffected.
    import re as _re6
    asm6 = db.func("orc_compiler_c_assemble", "orcprogram-c")
    nb = 0
    for c in asm6.calls("orc_compiler_append_code"):
        a = c.args()
        lit = strip_casts(a[1]) if len(a) > 1 else None
        txt = lit.get("str", "") if lit is not None and lit.k == "StringLiteral" else ""
        m6 = _re6.search(r"\bint (n|m) = ([^;]+);", txt)
        if not m6:
            continue
        nb += 1
        var, rhs = m6.group(1), m6.group(2).strip()
        if rhs == "%d":
            arg = unparse(strip_casts(a[2])) if len(a) > 2 else ""
            ok = arg.endswith("constant_" + var)
            why = "`int %s = %%d` is given `%s`" % (var, arg)
        else:
            ok = (var == "n" and rhs == "ex->n") or (var == "m" and rhs in ("ex->params[ORC_VAR_A1]", "ORC_EXECUTOR_M(ex)"))
            why = "`int %s = %s`" % (var, rhs)
        rep.check(ok, "D6-LOOP-BOUNDS", where(asm6), "%s:%s" % (var, "constant" if rhs == "%d" else "runtime"),
                  "generated C takes %s from %s" % (var, "constant_" + var if rhs == "%d" else rhs),
                  "the generated C declares its loop bound wrongly: %s -- it processes a different number of %s than emulation" % (why, "rows" if var == "m" else "elements"), line=c.line)
    if nb < 4:
        raise AnalysisBroken("only %d declarations of n/m found in orc_compiler_c_assemble" % nb)

    # ---- D4: constant operands are spelled as the values they are ---------------------------------
    from ctemplates import check_constant_spelling
    rep.extra["constant_spelling_cases"] = check_constant_spelling(ctx, db, rep, "D4-CONST-SPELLING")

    d7(ctx, db, rep)

    # D8: a loaded parameter is shared between instructions only if it was loaded the same way (shared with C02 D6; the
    # generated C reads the shared temporary lane-wise, so a wrong share shows up here even where emulation agrees)
    import importlib
    importlib.import_module("rules.c02").d6_reuse_key(db, rep, "D8-REUSE-KEY")
    # D9: the emulator stages int parameters sign-extended, as the generated C (which declares them int) sees them (shared with C03)
    importlib.import_module("rules.c03").d9_param_staging(db, rep, "D9-PARAM-STAGING")

    d10_redefinition_gets_fresh_temp(db, rep)
    d11_const_load_width(db, rep)
    div_guarded(db, rep)
    importlib.import_module("rules.c15").const_slot_shared_by_size(db, rep, "D12-CONST-SLOT-BY-SIZE")
    __import__("importlib").import_module("rules.c03").c_index_products_wide(db, rep, "D13-INDEX-WIDE")

    if ctx.tier == "thorough":
        d5(ctx, rep)


def d7(ctx, db, rep):
    """D7: the integer typedefs the generated C starts with have the width and signedness their names say, in each
    preprocessor branch and whatever the signedness of plain `char` (the emitted function bodies compute on these types).
    The emitted prelude is compiled (not run) under three dialect settings; width and sign are read off constant
    expressions that clang folds: sizeof(T) and ((T)-1 < 0)."""
    f = db.func("orc_target_c_get_typedefs", "orcprogram-c")
    rep.saw(f)
    lits = [n for n in f.walk() if n.k == "StringLiteral" and n.get("str")]
    if not lits:
        raise AnalysisBroken("orc_target_c_get_typedefs: no string literal")
    prelude = max((n.get("str") for n in lits), key=len)
    names = [("orc_int8", 1, 1), ("orc_int16", 2, 1), ("orc_int32", 4, 1), ("orc_int64", 8, 1),
             ("orc_uint8", 1, 0), ("orc_uint16", 2, 0), ("orc_uint32", 4, 0), ("orc_uint64", 8, 0)]
    wit = "enum {\n" + "".join("  w_%s_size = sizeof(%s), w_%s_neg = ((%s)-1 < 0),\n" % (t, t, t, t) for t, _, _ in names) + "  w_end = 0 };\n"
    n7 = 0
    for label, flags in (("C99 or later", "-std=gnu99"), ("pre-C99 compiler", "-std=gnu89"), ("pre-C99 compiler, plain char unsigned (ARM, PowerPC ABIs)", "-std=gnu89 -funsigned-char")):
        sdb = ctx.snippet_db("prelude%d" % n7, prelude + "\n" + wit, flags=flags)
        n7 += 1
        bad = []
        for t, size, neg in names:
            try:
                gs, gn = sdb.enum("w_%s_size" % t), sdb.enum("w_%s_neg" % t)
            except AnalysisBroken:
                bad.append("%s is not defined" % t)
                continue
            if gs != size or gn != neg:
                bad.append("%s is %d bytes and %s" % (t, gs, "signed" if gn else "unsigned"))
        rep.check(not bad, "D7-PRELUDE-TYPES", where(f), "dialect:%s" % flags,
                  "with a %s the 8 emitted integer typedefs have the width and signedness of their names" % label,
                  "the type prelude of the generated C is wrong with a %s: %s -- every signed/unsigned operation on that element type then differs from emulation" % (label, "; ".join(bad)))


def d5(ctx, rep):
    """thorough tier: sentence 2 of the property decided outright.  tools/generate-emulation is built from the tree in the
    scratch build directory (as the project's own build does) and its output is compared byte for byte with the checked-in
    orc/orcemulateopcodes.c / .h.  This executes the generator, never an emulation function."""
    import os, subprocess
    bdir = ctx.builddir
    p = subprocess.run(["ninja", "-C", bdir, "tools/generate-emulation"], stdout=subprocess.PIPE, stderr=subprocess.STDOUT, text=True)
    gen = os.path.join(bdir, "tools", "generate-emulation")
    if p.returncode != 0 or not os.path.exists(gen):
        raise AnalysisBroken("could not build generate-emulation in scratch: " + p.stdout[-400:])
    env = dict(os.environ, LD_LIBRARY_PATH=os.path.join(bdir, "orc"))
    for opts, rel in (([], "orc/orcemulateopcodes.c"), (["--header"], "orc/orcemulateopcodes.h")):
        out = os.path.join(ctx.scratch, "regen_" + os.path.basename(rel))
        r = subprocess.run([gen] + opts + ["-o", out], env=env, stdout=subprocess.PIPE, stderr=subprocess.STDOUT, text=True)
        if r.returncode != 0 or not os.path.exists(out):
            raise AnalysisBroken("generate-emulation failed: " + r.stdout[-300:])
        a = open(out).read().split("\n")
        b = open(os.path.join(ctx.repo, rel)).read().split("\n")
        diff = [(i + 1, x, y) for i, (x, y) in enumerate(zip(a, b)) if x != y]
        if len(a) != len(b) and not diff:
            diff = [(min(len(a), len(b)) + 1, "<%d lines>" % len(a), "<%d lines>" % len(b))]
        rep.check(not diff, "D5-REGENERATE", rel, "identical-to-generator-output",
                  "%s is byte for byte what generate-emulation %s writes (%d lines)" % (rel, " ".join(opts), len(b)),
                  "%s differs from the generator's output, first at line %s: generated `%s`, checked in `%s`" %
                  ((rel,) + (diff[0] if diff else (0, "", ""))), line=diff[0][0] if diff else None)



def d10_redefinition_gets_fresh_temp(db, rep, rule="D10-REDEFINITION-FRESH"):
    """D10: the C back end (and every other one) emits the invariant loads - loadpX of parameters and constants - ONCE, before
    the element loop.  That is sound only because orc_compiler_rewrite_vars gives every further definition of a temporary a
    fresh duplicate (single assignment per compiler variable): nothing inside the loop ever writes a variable that was loaded
    outside it.  In the branch taken when the destination has been defined before, every path on which the variable is a
    temporary must go through orc_compiler_dup_temporary; a path that reuses a duplicate in place lets `t = t op x` update a
    hoisted value, which then carries from element i to element i + 1 in the generated C and backup code while emulation,
    which runs the instructions in order, does not."""
    from collections import deque
    from exprval import NotPure, evaluate
    from facts import access_path
    from flow import atom
    f = db.func("orc_compiler_rewrite_vars", "orccompiler")
    rep.saw(f)
    TEMP = db.enum("ORC_VAR_TYPE_TEMP")
    dups = [c for c in f.calls("orc_compiler_dup_temporary")]
    if not dups:
        raise AnalysisBroken("orc_compiler_rewrite_vars no longer calls orc_compiler_dup_temporary")
    n = 0
    for b, blk in f.blocks.items():
        if blk.cond is None:
            continue
        cn, pol = atom(blk.cond, True)
        if cn is None or not (access_path(cn) or "").endswith(".used") and not (access_path(cn) or "").endswith("->used"):
            continue
        # the edge on which `used` is TRUE (an earlier definition exists)
        starts = [s_ for i_, s_ in enumerate(blk.succs) if s_ is not None and f.edge_kind(b, i_) in (True, False) and atom(blk.cond, f.edge_kind(b, i_))[1] is True]
        if not starts:
            continue
        # only the test whose else-branch holds the duplication (the destination loop)
        ifs = [x for x in f.walk() if x.k == "IfStmt" and x.c and x.c[0] is not None and any(y.id == blk.cond.id for y in x.c[0].walk())]
        if not ifs or not any(len(i_.c) > 2 and i_.c[2] is not None and any(d.id == y.id for d in dups for y in i_.c[2].walk()) or
                              (i_.c[1] is not None and any(d.id == y.id for d in dups for y in i_.c[1].walk())) for i_ in ifs):
            continue
        reach = f.reachable_blocks(starts[0])
        # where the two branches join again: the first block that post-dominates ... approximated by the assignment to last_use
        joins = [x for x in f.walk() if x.k == "BinaryOperator" and x.op == "=" and (access_path(x.c[0]) or "").endswith("last_use") and f.pos(x) is not None
                 and f.pos(x)[0] in reach and x.line > blk.cond.line]
        if not joins:
            continue
        target = min(joins, key=lambda x: x.line)
        tp = f.pos(target)
        n += 1
        env = {"compiler->vars[].vartype": TEMP}
        seen = set()
        dq = deque([starts[0]])
        bypass = False
        while dq and not bypass:
            bb = dq.popleft()
            if bb in seen:
                continue
            seen.add(bb)
            k = f.blocks[bb]
            els = k.el[:tp[1]] if bb == tp[0] else k.el
            if any(e.k == "CallExpr" and e.name == "orc_compiler_dup_temporary" for e in els):
                continue
            if bb == tp[0]:
                bypass = True
                break
            val = None
            if k.cond is not None:
                try:
                    val = bool(evaluate(k.cond, env))
                except (NotPure, ValueError, ZeroDivisionError):
                    val = None
            for i_, s_ in enumerate(k.succs):
                if s_ is None:
                    continue
                ek = f.edge_kind(bb, i_)
                if val is not None and ek in (True, False) and ek != val:
                    continue
                dq.append(s_)
        rep.check(not bypass, rule, where(f), "redefinition@%s" % blk.cond.line,
                  "a temporary that is defined again always gets a fresh duplicate (orc_compiler_dup_temporary)",
                  "orc_compiler_rewrite_vars can let a second definition of a temporary through without a fresh duplicate (a path from the `used` test at "
                  "line %s to line %s avoids orc_compiler_dup_temporary): a value loaded once before the loop (loadpX) is then updated inside it, and the "
                  "generated C / backup code carries it from one element to the next where emulation does not" % (blk.cond.line, target.line), line=blk.cond.line)
    if n < 1:
        raise AnalysisBroken("the re-definition branch of orc_compiler_rewrite_vars was not found")
    return n


def d11_const_load_width(db, rep, rule="D11-CONST-LOAD-WIDTH"):
    """D11: operand sizes of constants are not checked, so a constant declared with 4 bytes can feed a 64-bit opcode; emulation
    and the JIT then use all 64 bits of its value.  The C back end must pick the literal it prints by the width of the LOAD
    (the rule's own size), not by the declared size of the constant: with load size 8 and a 4-byte constant the 64-bit literal
    template has to be the one reached, with load size 4 and an 8-byte constant the 32-bit one (exprval.reachable_under over
    c_rule_loadpX)."""
    from exprval import reachable_under
    from facts import access_path
    f = db.func("c_rule_loadpX", "orcprogram-c")
    rep.saw(f)
    CONST = db.enum("ORC_VAR_TYPE_CONST")
    tmpl = []
    for c in f.calls("orc_compiler_append_code"):
        a = c.args()
        lit = strip_casts(a[1]) if len(a) > 1 else None
        t = lit.get("str", "") if lit is not None and lit.k == "StringLiteral" else ""
        if "0x%08x" in t:
            tmpl.append((c, "64" if "ORC_UINT64_C" in t or t.count("%08x") >= 2 else "32"))
    if len(tmpl) < 2:
        raise AnalysisBroken("c_rule_loadpX: literal templates for constants not found")
    pn = [p_["name"] for p_ in f.params]
    sz = [x.name for x in f.walk() if x.k == "VarDecl" and x.name == "size"]
    for load, decl, want in ((8, 4, "64"), (4, 8, "32")):
        env = {"size": load, "p->vars[].size": decl, "p->vars[].vartype": CONST, "p->target_flags": 0, "p->vars[].param_type": 0}
        got = sorted({k for c, k in tmpl if reachable_under(f, env, lambda e, c=c: e.id == c.id)})
        rep.check(got == [want], rule, where(f), "load%d:const%d" % (load, decl),
                  "a %d-byte load of a constant declared with %d bytes prints the %s-bit literal" % (load, decl, want),
                  "c_rule_loadpX prints the %s literal template for a %d-byte load of a constant declared with %d bytes (the choice follows the declared size, "
                  "not the width of the load): `.const 4 c -1` used by `addq` becomes `var.i = 0xffffffff` in the Orc-free and backup code, which adds "
                  "4294967295 where emulation and the JIT add -1" % ("/".join(got) or "no", load, decl), line=f.line)


def _strip_outer(t):
    import re as _re
    t = _re.sub(r"\s+", "", t)
    prev = None
    while prev != t:
        prev = t
        t = _re.sub(r"\((?:const)?(?:orc_)?(?:u?int(?:8|16|32|64)(?:_t)?|unsignedint|int|unsigned)\)", "", t)
        if t.startswith("(") and t.endswith(")"):
            d = 0
            for i, ch in enumerate(t):
                d += ch == "("
                d -= ch == ")"
                if d == 0 and i < len(t) - 1:
                    break
            else:
                t = t[1:-1]
    return t


def _operand_after(t, i):
    """balanced operand text starting at t[i] (a parenthesised group with what a cast applies to, or a name/number)."""
    j = i
    n = len(t)
    while j < n:
        if t[j] == "(":
            d = 0
            k = j
            while k < n:
                d += t[k] == "("
                d -= t[k] == ")"
                k += 1
                if d == 0:
                    break
            grp = t[j:k]
            j = k
            import re as _re
            if _re.fullmatch(r"\((?:orc_)?(?:u?int(?:8|16|32|64)(?:_t)?|unsigned int|int|unsigned)\)", grp):
                continue            # a cast: the operand goes on
            break
        m = __import__("re").match(r"[A-Za-z_0-9.\[\]>-]+", t[j:])
        if m:
            j += m.end()
        break
    # a trailing `& mask` inside the same parenthesis level binds looser than `/`, so it is not part of the operand
    return t[i:j]


def div_guarded(db, rep, rule="D12-DIVISOR-GUARDED"):
    """An integer division in generated C traps (SIGFPE) when the divisor is 0; the reference result for that case is a constant.
    Every C-rule template with an integer `/` whose divisor is not a literal must therefore select the constant under a test
    `(G == 0) ?` whose G is the divisor itself - same operand, same mask.  A guard on the unmasked operand (`src2 == 0`) with
    a division by `src2 & 0xff` lets 0x0100 through to a division by zero: emulation returns 255, the backup function kills
    the process."""
    import re as _re
    tu = db.tu("orcprogram-c")
    n = 0
    for f in tu.main_functions():
        ints = set()
        for c in f.calls("c_get_name_int"):
            a = strip_casts(c.args()[0]) if c.args() else None
            if a is not None and a.k == "DeclRefExpr":
                ints.add(a.name)
        for c in f.calls("orc_compiler_append_code"):
            a = c.args()
            lit = strip_casts(a[1]) if len(a) > 1 else None
            if lit is None or lit.k != "StringLiteral":
                continue
            fmt = lit.get("str", "")
            names = []
            for x in a[2:]:
                xs = strip_casts(x)
                names.append(xs.name if xs is not None and xs.k == "DeclRefExpr" else (xs.get("str", "?") if xs is not None and xs.k == "StringLiteral" else "?"))
            it = iter(names)
            text = _re.sub(r"%[sd]", lambda m: next(it, "?"), fmt)
            text = _re.sub(r"/\*.*?\*/", "", text)
            for m in _re.finditer(r"/(?![*/=])", text):
                div = _operand_after(text, m.end())
                # `(cast)x & mask` written inside one parenthesis: the group is the operand already
                dn = _strip_outer(div)
                if not dn or _re.fullmatch(r"[0-9a-fxA-FXuUlL.]+", dn):
                    continue
                if not any(_re.search(r"\b%s\b" % _re.escape(v), dn) for v in ints):
                    continue            # float division, or a divisor that is not an element value
                n += 1
                rep.saw(f)
                guards = []
                for g in _re.finditer(r"==\s*0\s*\)\s*\?", text[:m.start()]):
                    k = g.start()
                    d = 0
                    j = k - 1
                    # walk back to the parenthesis that this `== 0)` closes
                    d = 1
                    while j >= 0 and d > 0:
                        d += text[j] == ")"
                        d -= text[j] == "("
                        j -= 1
                    guards.append(_strip_outer(text[j + 2:k]))
                rep.check(dn in guards, rule, where(f), "%s:/%s" % (f.name, dn),
                          "the divisor `%s` is tested against 0 before the division" % dn,
                          "%s emits an integer division by `%s` guarded by %s: a divisor the guard lets through and the mask turns into 0 makes the generated C "
                          "divide by zero (SIGFPE) where emulation returns the reference constant" % (f.name, dn, ("`%s == 0`" % "`, `".join(guards)) if guards else "nothing"),
                          line=c.line)
    if n < 1:
        raise AnalysisBroken("no integer division found in the C back end's templates (divluw expected)")
    return n
