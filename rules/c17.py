"""C17 — compilation is deterministic and independent of history (structural part).

  D1 no nondeterminism source or history carrier flows into the compile output:
     deny-listed calls on the compile slice are confined to the documented randomize
     mode; process-wide state that the slice writes is read only by the code-memory
     allocator, whose results reach only the placement fields of OrcCode
  D2 the debug level is read only by the logging module
  D3 every OrcCompiler field the emission layer writes is reset between the sizing pass
     and the real pass of orc_x86_compile (or is in the reasoned allow-table)
  D4 no emitted immediate is derived from a pointer value
  D5 the compile driver only reads the program (stores limited to the result fields)
  D7 no emitter advances the emission pointer without writing the bytes it steps over (the compile buffer is not cleared)
  D6 the history carrier D1 tolerates (the code-chunk list) stays a tiling across split/merge (shared with C09-D1), so
     placement history cannot make a later compile overwrite the bytes of a live program
Byte-for-byte equality of two runs as such is NOT decided.
"""
from facts import ASSIGN_OPS, AnalysisBroken, access_path, strip_casts, unparse, root_var
from flow import atom, Facts
from callgraph import CallGraph
from rules_common import where

DENY = {"rand", "random", "rand_r", "drand48", "lrand48", "time", "clock", "clock_gettime", "gettimeofday", "getpid", "gettid", "getenv", "_orc_getenv"}
# allocator entry points: where the compile result legitimately depends on history (placement only)
PLACEMENT_FIELDS = {"chunk", "code", "exec", "code_size"}
# OrcCompiler fields the emission layer may carry from pass 1 to pass 2
PASS_CARRY = {
    "constants": "pass 1 discovers the constants that pass 2 loads up front (orc_x86_init_constants)",
    "n_constants": "same", "min_temp_reg": "register bookkeeping recomputed per instruction", "max_used_temp_reg": "monotone high-water mark",
    "used_regs": "pass 1 learns which callee-saved registers the prologue must push", "alloc_regs": "recomputed by orc_compiler_get_temp_reg",
    "error": "sticky by design", "error_msg": "sticky by design", "result": "sticky by design",
    "output_insns": "buffer reused (n_output_insns is reset)", "n_output_insns_alloc": "capacity of the reused buffer",
    "fixups": "array reused (n_fixups is reset)", "insn_shift": "set per instruction before use", "insn_index": "set per instruction before use",
    "offset": "set per region before use", "unroll_index": "set per unrolled copy before use", "loop_shift": "restored by the loop emitter",
    "code": "buffer", "vars": "per-variable bookkeeping re-derived (update_type, ptr offsets) before use",
}


def run(ctx):
    db = ctx.db()
    rep = ctx.report
    rep.explanation = (
        "Effect and flow structure of the compile path: the call-graph slice reachable from orc_program_compile_full (all back ends, "
        "indirect calls resolved through function-pointer slots) is scanned for nondeterminism sources (rand, time, clock, getpid, getenv "
        "...) — each must be dominated by the documented randomize test; process-wide variables that the slice writes (history carriers) "
        "may be read only inside the code-memory allocator, whose only outputs are the placement fields of OrcCode; the debug level is "
        "read only by orcdebug.c; every OrcCompiler field written by the x86 emission layer is reset between the two passes of "
        "orc_x86_compile or listed with a reason; no emit call receives an immediate computed from a pointer; the compile driver stores "
        "into the program only its result fields. Equality of the bytes of two runs is NOT executed.")
    rep.assumptions += ["allow-table PASS_CARRY in rules/c17.py", "object-insensitive effect sets; once-flag guarded initialisation first run from orc_init is configuration, not history"]
    cg = CallGraph(db)
    slice_ = cg.reachable(["orc_program_compile_full"], stop=("orc_init",))
    init_reach = {(f.name, f.tu.base) for f in cg.reachable(["orc_init"])}
    rep.extra["compile_slice_functions"] = len(slice_)
    if len(slice_) < 400:
        raise AnalysisBroken("compile slice has only %d functions" % len(slice_))

    # ---- D1a deny-listed calls ------------------------------------------------
    nsrc = 0
    for f in slice_:
        fc = None
        for c in f.calls():
            if c.name not in DENY:
                continue
            nsrc += 1
            rep.saw(f)
            fc = fc or Facts(f)
            conds = [(unparse(x[0]), x[1]) for x in fc.conds(c) if x[0] != "switch"]
            if c.name in ("getenv", "_orc_getenv"):
                # environment is configuration; allowed in the allocator's directory search only
                ok = f.tu.base.startswith("orccodemem")
                rep.check(ok, "D1-NONDETERMINISM", where(f), "%s()" % c.name, "environment read only to choose the directory of the code mapping (placement)",
                          "%s reads the environment on the compile path: the output can depend on it" % f.name, line=c.line)
                continue
            ok = ("_orc_compiler_flag_randomize", True) in conds
            rep.check(ok, "D1-NONDETERMINISM", where(f), "%s()" % c.name, "%s() only under the documented ORC_CODE=randomize test" % c.name,
                      "%s() is called on the compile path without being guarded by _orc_compiler_flag_randomize (facts %s)" % (c.name, conds), line=c.line)
    rep.check(nsrc >= 1, "D1-NONDETERMINISM", "orc/", "sources-found", "%d deny-listed call sites on the compile slice examined" % nsrc, "no deny-listed call found (matcher rotted?)")

    # ---- D1b history carriers ---------------------------------------------------
    written = {}
    for f in slice_:
        if (f.name, f.tu.base) in init_reach and _once_guarded(f):
            continue
        for n in f.walk():
            l = None
            if n.k in ("BinaryOperator", "CompoundAssignOperator") and n.op in ASSIGN_OPS:
                l = strip_casts(n.c[0])
            elif n.k == "UnaryOperator" and n.op in ("++", "--"):
                l = strip_casts(n.c[0])
            if l is None:
                continue
            b = l
            while b is not None and b.k in ("ArraySubscriptExpr", "MemberExpr"):
                b = strip_casts(b.c[0])
            if b is not None and b.k == "DeclRefExpr" and b.get("dk") in ("global", "static_local"):
                written.setdefault(b.name, []).append(f)
    carriers = sorted(written)
    rep.extra["history_carriers"] = {k: sorted({f.name for f in v})[:4] for k, v in written.items()}
    for g in carriers:
        readers = set()
        for f in slice_:
            for n in f.walk():
                if n.k == "DeclRefExpr" and n.name == g and n.get("dk") in ("global", "static_local"):
                    readers.add(f)
        bad = sorted({f.name for f in readers if not f.tu.base.startswith("orccodemem")})
        rep.check(not bad, "D1-HISTORY", "orc/", "carrier:%s" % g,
                  "process-wide variable %s (written on the compile path) is read only by the code-memory allocator" % g,
                  "process-wide variable `%s` is written by %s and read by %s on the compile path: the result depends on what was compiled before" %
                  (g, sorted({f.name for f in written[g]})[:3], bad[:3]))
    al = db.func("orc_code_allocate_codemem", "orccodemem")
    outs = set()
    for n in al.walk():
        if n.k == "BinaryOperator" and n.op == "=" and (access_path(n.c[0]) or "").startswith("code->"):
            outs.add(access_path(n.c[0])[len("code->"):])
    rep.check(outs <= PLACEMENT_FIELDS and al.ret == "void", "D1-HISTORY", where(al), "allocator-outputs",
              "the allocator hands back only placement fields %s" % sorted(outs),
              "orc_code_allocate_codemem stores history-dependent values into %s" % sorted(outs - PLACEMENT_FIELDS))
    # placement pointers are only copy targets / handed to the user
    cp = db.func("orc_compiler_compile_program", "orccompiler")
    rep.saw(cp)
    bad = []
    for n in cp.walk():
        if n.k == "MemberExpr" and n.name in ("code", "exec") and unparse(n.c[0]).endswith("->orccode"):
            p = n.parent
            # pointer arithmetic on the placement pointer is fine as long as the result is only an ADDRESS written to / handed on
            while p is not None and (p.k in ("CStyleCastExpr", "ParenExpr") or (p.k == "BinaryOperator" and p.op in ("+", "-"))):
                p = p.parent
            okuse = p is not None and ((p.k == "CallExpr" and p.name in ("memcpy", "memset", "memmove") and p.args()[0] is not None and n in list(p.args()[0].walk()))
                                       or (p.k == "BinaryOperator" and p.op == "=")
                                       or (p.k == "CallExpr"))
            if not okuse:
                bad.append(unparse(p)[:60] if p is not None else "?")
    rep.check(not bad, "D1-HISTORY", where(cp), "placement-uses", "placement pointers are only copied to, flushed and published",
              "placement pointer used in a computation: %s" % bad[:2])

    # ---- D2 debug level -----------------------------------------------------------
    for g in ("_orc_debug_level", "_orc_debug_print_func"):
        readers = set()
        for f in db.all_functions():
            for n in f.walk():
                if n.k == "DeclRefExpr" and n.name == g and n.get("dk") == "global":
                    readers.add(f)
        bad = sorted({f.name for f in readers if not f.tu.base.startswith("orcdebug")})
        rep.check(not bad and readers, "D2-DEBUG-LEVEL", "orc/orcdebug.c", g, "%s is read only inside orcdebug.c" % g,
                  "%s is read outside the logging module by %s" % (g, bad))
    lvl = [(f, c) for f in slice_ for c in f.calls("orc_debug_get_level")]
    rep.check(not lvl, "D2-DEBUG-LEVEL", "orc/", "get_level-on-compile-path", "no compile-path function queries the debug level",
              "compile-path function(s) %s query the debug level: the output may depend on ORC_DEBUG" % sorted({f.name for f, _ in lvl}))

    # ---- D3 pass reset --------------------------------------------------------------
    emit_tus = ("orcx86insn", "orcx86")
    wr = {}
    for t in emit_tus:
        for f in db.tu(t).main_functions():
            for n in f.walk():
                l = None
                if n.k in ("BinaryOperator", "CompoundAssignOperator") and n.op in ASSIGN_OPS:
                    l = strip_casts(n.c[0])
                elif n.k == "UnaryOperator" and n.op in ("++", "--"):
                    l = strip_casts(n.c[0])
                if l is None:
                    continue
                b = l
                fld = None
                while b is not None and b.k in ("ArraySubscriptExpr", "MemberExpr"):
                    if b.k == "MemberExpr" and (b.get("rec") or "").lstrip("_") == "OrcCompiler":
                        fld = b.name
                    b = strip_casts(b.c[0])
                if fld:
                    wr.setdefault(fld, set()).add(f.name)
    ac = db.func("orc_compiler_append_code", "orccompiler")
    for n in ac.walk():
        if n.k in ("BinaryOperator", "CompoundAssignOperator") and n.op in ASSIGN_OPS:
            l = strip_casts(n.c[0])
            if l.k == "MemberExpr" and (l.get("rec") or "").lstrip("_") == "OrcCompiler":
                wr.setdefault(l.name, set()).add(ac.name)
    xc = db.func("orc_x86_compile", "orcprogram-x86")
    rep.saw(xc)
    loops = sorted(xc.calls("orc_x86_emit_loop"), key=lambda c: (c.line, c.id))
    pro = list(xc.calls("orc_x86_emit_prologue"))
    if not loops or not pro:
        raise AnalysisBroken("orc_x86_compile: sizing pass / prologue not found")
    first, prologue = loops[0], pro[0]
    reset = set()
    for n in xc.walk():
        fld = None
        if n.k == "BinaryOperator" and n.op == "=":
            l = strip_casts(n.c[0])
            if l.k == "MemberExpr" and (l.get("rec") or "").lstrip("_") == "OrcCompiler":
                fld = l.name
        elif n.k == "CallExpr" and n.name == "memset":
            a = strip_casts(n.args()[0])
            if a is not None and a.k == "MemberExpr" and (a.get("rec") or "").lstrip("_") == "OrcCompiler":
                fld = a.name
        if fld and xc.dominates(first, n) and xc.dominates(n, prologue):
            reset.add(fld)
    if len(wr) < 6:
        raise AnalysisBroken("emission-layer write set too small: %s" % sorted(wr))
    for fld in sorted(wr):
        ok = fld in reset or fld in PASS_CARRY
        rep.check(ok, "D3-PASS-RESET", where(xc), "field:%s" % fld,
                  "OrcCompiler.%s (written by %s) is %s" % (fld, sorted(wr[fld])[:2], "reset between the passes" if fld in reset else "carried: " + PASS_CARRY.get(fld, "")),
                  "OrcCompiler.%s is written by the emission layer (%s) but neither reset between the sizing pass and the real pass nor in the allow-table: the second pass starts from the first pass's state" %
                  (fld, sorted(wr[fld])[:3]))

    # ---- D4 position independence ------------------------------------------------------
    n4 = 0
    for f in slice_:
        for c in f.calls():
            if not c.name or not (c.name.startswith("orc_x86_emit_") or c.name.startswith("orc_vex_emit_")):
                continue
            n4 += 1
            for a in c.args():
                for x in a.walk():
                    if x.k == "CStyleCastExpr" and x.ty in ("int", "unsigned int", "long", "unsigned long", "orc_int64", "orc_uint64", "intptr_t", "uintptr_t") \
                            and x.c and x.c[0] is not None and "*" in strip_casts(x.c[0]).ty and strip_casts(x.c[0]).k != "OffsetOfExpr":
                        src = unparse(strip_casts(x.c[0]))
                        if src in ("user",):
                            continue      # the rule's registration payload, a small integer by convention
                        if "&((" in src or "offsetof" in src:
                            continue
                        rep.violation("D4-NO-ADDRESS-IMMEDIATES", where(f), "%s(%s)" % (c.name, src[:40]),
                                      "an immediate passed to %s is derived from the pointer `%s`: the emitted code depends on addresses" % (c.name, src), line=c.line)
    rep.check(n4 > 500, "D4-NO-ADDRESS-IMMEDIATES", "orc/", "emit-calls-scanned", "%d x86 emit call sites scanned; none takes a pointer-derived immediate" % n4,
              "only %d emit call sites found" % n4)

    # ---- D5 program only read ------------------------------------------------------------
    ALLOWED = {"orccode", "code_exec", "asm_code", "error_msg"}
    bad = []
    for n in cp.walk():
        if n.k in ("BinaryOperator", "CompoundAssignOperator") and n.op in ASSIGN_OPS:
            p = access_path(n.c[0]) or ""
            if p.startswith("program->"):
                fld = p[len("program->"):].split("->")[0].split("[")[0].split(".")[0]
                if fld not in ALLOWED:
                    bad.append(p)
        if n.k == "CallExpr" and n.name in ("memcpy", "memset"):
            d = access_path(n.args()[0]) or ""
            if d.startswith("program->") and not d.startswith("program->orccode"):
                bad.append("memcpy->" + d)
    rep.check(not bad, "D5-PROGRAM-READ-ONLY", where(cp), "stores-into-program", "the driver stores only into %s of the program" % sorted(ALLOWED),
              "orc_compiler_compile_program modifies the program's %s: recompiling after a reset no longer starts from the same program" % bad[:3])
    # callees that receive `program` itself
    for c in cp.calls():
        if any(a is not None and access_path(a) == "program" for a in c.args()):
            ok = c.name in ("orc_program_get_error", "orc_program_set_error")
            rep.check(ok, "D5-PROGRAM-READ-ONLY", where(cp), "passes-program:%s" % c.name, "program handed only to the error accessors",
                      "the compile driver passes the program to %s, which may modify it" % c.name, line=c.line)

    # ---- D6: placement history cannot overwrite a live program's bytes ------------------------
    # D1 lets allocator state flow into the placement fields only; that is harmless only while the allocator's chunk list
    # stays a tiling (split/merge identities, shared with C09-D1): a stale link lets a later free merge over a live chunk.
    import importlib
    importlib.import_module("rules.c09").d1(db, rep, "D6-ALLOCATOR-TILING", "D6-ALLOCATOR-TILING")

    # ---- D7: every byte of the emitted range is written --------------------------------------------
    # The compile buffer is allocated once per compile and NOT cleared; what ends up in the code object is
    # [code, codeptr).  An emitter that advances codeptr without storing the bytes it steps over (alignment padding,
    # reserved slots) publishes whatever an earlier, longer compile left there: the machine code then depends on history.
    fxd = ctx.fixture_db(["codeskip"])
    got = {f.name: bool(_codeptr_skips(f)) for f in fxd.tu("codeskip").main_functions()}
    if got != {"skip_bad": True, "skip_good": False, "skip_filled": False}:
        raise AnalysisBroken("codeptr-skip positive control failed: %s" % got)
    nsk = 0
    for f in db.all_functions():
        if not f.relfile.startswith("orc/"):
            continue
        for st, why in _codeptr_skips(f):
            nsk += 1
            rep.violation("D7-NO-SKIPPED-BYTES", where(f), "codeptr-advance", "%s advances the emission pointer without writing the bytes it steps over (`%s`): "
                          "the emitted function contains stale bytes of the compile buffer, i.e. depends on what was compiled before" % (f.name, unparse(st)[:60]), line=st.line)
    rep.ok("D7-NO-SKIPPED-BYTES", "orc/", "scan", "no emitter advances codeptr without storing (%d offenders); positive control fixtures/codeskip.c as expected" % nsk)
    # D8: running "the same code" after a reset and recompile means the program's CURRENT code: no stale attach-time copy
    # of the entry point is used while a program is attached (shared with C06 / C16)
    import importlib as _il
    _il.import_module("rules.c06").snapshot_slots(db, rep, "D8-LIVE-CODE")
    # D9: what generated code reads from the executor besides its inputs it has stored itself before (shared with C03 D8 / D10):
    # otherwise the result of a run depends on what the same executor (or the stack) held before
    import emitstate as _es, emitsym as _esym
    _names = {}
    for _fld in db.record("OrcExecutor")["fields"]:
        _names.setdefault(_fld["off"], _fld["name"])
    _es.check(db.tu("orcprogram-x86"), rep, "D9-COUNTERS-DEFINED", where, offset_names=_names)
    for _nm in ("orc_x86_emit_split_2_regions", "orc_x86_emit_split_3_regions"):
        _esym.check_tiling(db.func(_nm, "orcprogram-x86"), rep, "D9-REGION-TILING", where)
    d10_partial_load_cleared(db, rep)
    # D11: the generated code never restores a state (MXCSR) it did not save in the same call: no emitted branch crosses one half
    # of a save/restore pair (shared with C10 D5)
    _il.import_module("rules.c10").emitted_branch_pairs(db, rep, "D11-NO-STALE-RESTORE")
    two_operand_dest_defined(db, rep)
    # an accumulator that is not zeroed starts from what an earlier call left in its register (shared rule, rules/c06.py)
    _il.import_module("rules.c06").accumulator_walks_complete(db, rep, "D13-ACCUMULATOR-WALKS")
    two_operand_source_preserved(db, rep)


def _codeptr_skips(f):
    """[(statement, reason)] for `X->codeptr += e` / `X->codeptr = X->codeptr + e` not preceded, in the same block, by a
    memset/memcpy of the same length to the same pointer."""
    out = []
    for st in f.walk():
        tgt = adv = None
        if st.k == "CompoundAssignOperator" and st.op == "+=" and (access_path(st.c[0]) or "").endswith("codeptr"):
            tgt, adv = access_path(st.c[0]), unparse(strip_casts(st.c[1]))
        elif st.k == "BinaryOperator" and st.op == "=" and (access_path(st.c[0]) or "").endswith("codeptr"):
            r = strip_casts(st.c[1])
            if r is not None and r.k == "BinaryOperator" and r.op == "+" and access_path(r.c[0]) == access_path(st.c[0]):
                tgt, adv = access_path(st.c[0]), unparse(strip_casts(r.c[1]))
        if tgt is None:
            continue
        pos = f.pos(st)
        filled = False
        if pos is not None:
            for e in f.blocks[pos[0]].el[:pos[1]]:
                if e.k == "CallExpr" and e.name in ("memset", "memcpy", "__builtin_memset", "__builtin_memcpy") and access_path(e.args()[0]) == tgt and \
                        unparse(strip_casts(e.args()[2])) == adv:
                    filled = True
        if not filled and pos is not None:
            # explicit byte stores ptr[0..k-1] (ORC_WRITE_UINT32_LE) or one wide store through a cast of the pointer
            kv = strip_casts(st.c[1]).v if st.k == "CompoundAssignOperator" else None
            idx = set()
            wide = 0
            for e in f.func_nodes_before(st) if hasattr(f, "func_nodes_before") else [x for b in f.blocks.values() for x in b.el]:
                if e.line > st.line or e.line < st.line - 12:
                    continue
                for w in e.walk():
                    if w.k == "BinaryOperator" and w.op == "=":
                        l = strip_casts(w.c[0])
                        if l is not None and l.k == "ArraySubscriptExpr" and access_path(l.c[0]) == tgt and strip_casts(l.c[1]).v is not None:
                            idx.add(strip_casts(l.c[1]).v)
                        if l is not None and l.k == "UnaryOperator" and l.op == "*" and access_path(strip_casts(l.c[0])) == tgt:
                            wide = max(wide, {"orc_uint32": 4, "unsigned int": 4, "orc_uint16": 2, "orc_uint64": 8}.get((l.get("ty") or "").strip(), 0))
            if kv is not None and (set(range(kv)) <= idx or wide >= kv):
                filled = True
        if not filled:
            out.append((st, "advance by %s" % adv))
    return out


def _once_guarded(f):
    for m in f.walk():
        if m.k == "IfStmt" and m.c[0] is not None and atom(m.c[0], True)[1] is True and atom(m.c[0], True)[0] is not None and atom(m.c[0], True)[0].k == "DeclRefExpr" and atom(m.c[0], True)[0].get("dk") == "static_local":
            if m.c[1] is not None and any(x.k == "ReturnStmt" for x in m.c[1].walk()):
                return True
    return False


def d10_partial_load_cleared(db, rep, rule="D10-PARTIAL-LOAD-CLEARED"):
    """D10: "running the same code repeatedly gives the same results".  A load rule that brings a few bytes into a vector
    register with an insert-into-lane instruction (pinsrb/w/d/q from memory) writes that lane only; the others keep what the
    register held before the function was called.  Opcodes that consume the whole register (the accumulating ones sum every
    lane) then return a value that depends on what ran before.  In every x86 load rule the first insert into a register must be
    dominated by an instruction that defines the whole register: `pxor r, r`, a movd/movq/movdq load into it, or a register copy."""
    import re
    from facts import init_rows
    rows = init_rows(db.tu("orcx86insn").global_("orc_x86_opcodes"))

    def row(c):
        a = c.args()
        v = strip_casts(a[1]).v if len(a) > 1 else None
        return rows[v]["name"] if v is not None and 0 <= v < len(rows) else None
    n = 0
    for tub in ("orcrules-sse", "orcrules-mmx"):
        tu = db.tu(tub)
        for f in tu.main_functions():
            calls = list({c.id: c for c in f.calls()}.values())
            ins = [c for c in calls if c.name == "orc_x86_emit_cpuinsn_load_memoffset" and re.match(r"^pinsr[bwdq]$", row(c) or "")]
            for c in ins:
                reg = unparse(strip_casts(c.args()[-1]))
                defined = False
                for d in calls:
                    if d.id == c.id or not f.dominates(d, c):
                        continue
                    nm = d.name or ""
                    a = [unparse(strip_casts(x)) for x in d.args()]
                    r_ = row(d) if nm.startswith("orc_x86_emit_cpuinsn") else None
                    if nm == "orc_x86_emit_cpuinsn_size" and r_ == "pxor" and a[-1] == reg and a[-2] == reg:
                        defined = True
                    elif nm == "orc_x86_emit_cpuinsn_size" and r_ in ("movd", "movq", "movdqa", "movdqu") and a[-1] == reg:
                        defined = True
                    elif nm == "orc_x86_emit_cpuinsn_load_memoffset" and r_ in ("movd", "movq", "movdqa", "movdqu", "movhps") and a[-1] == reg:
                        defined = True
                    elif re.search(r"^orc_x86_emit_mov_memoffset_(sse|mmx)$", nm) and len(a) >= 5 and a[4] == reg:
                        defined = True
                    elif nm == "orc_x86_emit_cpuinsn_load_memoffset" and re.match(r"^pinsr[bwdq]$", r_ or "") and a[-1] == reg:
                        defined = True          # a later lane of a register whose first insert is judged itself
                n += 1
                rep.saw(f)
                rep.check(defined, rule, where(f), "%s:%s@%s" % (f.name, reg, c.line),
                          "`%s` is defined as a whole before a lane of it is loaded" % reg,
                          "%s loads a lane of `%s` with %s (line %s) without having cleared or fully written the register first: the other lanes keep the "
                          "caller's data, and an opcode that uses the whole register (accw/accl sum all lanes) makes the result of the same call on the same "
                          "data differ from run to run" % (f.name, reg, row(c), c.line), line=c.line)
    if n < 8:
        raise AnalysisBroken("only %d insert-into-lane loads found in the sse/mmx rules" % n)
    return n



# two-operand SSE/MMX forms whose destination is written without being read (Intel SDM operand legend "ModRM:reg (w)"); every
# other two-operand vector instruction of orc_x86_opcodes is read-modify-write on its destination
PURE_WRITERS = ("movdqa", "movdqu", "movq", "movd", "pabsb", "pabsw", "pabsd", "pmovsxbw", "pmovsxbd", "pmovsxbq", "pmovsxwd", "pmovsxwq", "pmovsxdq",
                "pmovzxbw", "pmovzxbd", "pmovzxbq", "pmovzxwd", "pmovzxwq", "pmovzxdq", "phminposuw", "sqrtps", "sqrtpd", "cvttps2dq", "cvttpd2dq",
                "cvtdq2ps", "cvtdq2pd", "cvtps2pd", "cvtpd2ps", "pshufd", "pshuflw", "pshufhw", "pshufw")
SELF_DEFINING = ("pxor", "pcmpeqb", "pcmpeqw", "pcmpeqd", "pcmpeqq", "xorps", "xorpd", "psubb", "psubw", "psubd", "psubq", "pandn")


def two_operand_dest_defined(db, rep, rule="D12-DEST-DEFINED"):
    """The SSE and MMX rules are two-operand: `op src, dest` computes dest = dest op src.  The register allocator gives the
    destination of an Orc instruction the register of its first source only when that source dies at the instruction; in every
    other case (the source is used again later, or it is a constant / parameter held in a loop-invariant register) `dest` is a
    register nobody has written.  A rule whose first instruction on `dest` is read-modify-write therefore has to copy the source
    in first (`if (src != dest) movdqa src, dest`), or start with a form that only writes (mov*, pshuf*, pabs*, pmov?x*, cvt*,
    sqrt*).  Otherwise the result contains whatever the register held: it changes with the surrounding program and with what ran
    before.  Scratch registers (orc_compiler_get_temp_reg) are judged the same way."""
    import re
    from facts import init_rows
    from flow import path_to
    rows = init_rows(db.tu("orcx86insn").global_("orc_x86_opcodes"))

    def key(e, kind):
        e = strip_casts(e)
        if e is None:
            return None
        if e.k == "DeclRefExpr" and e.name in kind:
            return e.name
        t = unparse(e).replace(" ", "")
        m = re.search(r"vars\[insn->(dest|src)_args\[(\d)\]\]\.alloc$", t)
        if m:
            return "%s%s" % (m.group(1), m.group(2))
        return None

    n = judged = 0
    for tub in ("orcrules-sse", "orcrules-mmx"):
        tu = db.tu(tub)
        for f in tu.main_functions():
            if "_rule_" not in f.name:
                continue
            if re.search(r"_rule_acc|_rule_load|_rule_ldres|_rule_store", f.name):
                continue            # accumulators read-modify-write their destination by definition; loads / stores are judged by D10 and C03
            kind = {}
            for vd in f.walk():
                if vd.k == "VarDecl" and vd.c and vd.c[0] is not None:
                    t = unparse(vd.c[0])
                    if "dest_args" in t and t.rstrip().endswith(".alloc"):
                        kind[vd.name] = "dest"
                    elif "orc_compiler_get_temp_reg" in t:
                        kind[vd.name] = "temp"
                    elif "src_args" in t and t.rstrip().endswith(".alloc"):
                        kind[vd.name] = "src"
            kind.update({"dest0": "dest", "dest1": "dest", "src0": "src", "src1": "src", "src2": "src"})
            calls = list({c.id: c for c in f.calls()}.values())
            emits = [c for c in calls if c.name in ("orc_x86_emit_cpuinsn_size", "orc_x86_emit_cpuinsn_imm")]
            if not emits:
                continue
            n += 1

            def rowname(c):
                v = strip_casts(c.args()[1]).v
                return rows[v]["name"] if v is not None and 0 <= v < len(rows) else None

            def defines(e, reg):
                if e.k != "CallExpr" or not e.name:
                    return False
                a = e.args()
                if e.name in ("orc_x86_emit_cpuinsn_size", "orc_x86_emit_cpuinsn_imm"):
                    if key(a[4], kind) != reg:
                        return False
                    rn = rowname(e)
                    return rn in PURE_WRITERS or (rn in SELF_DEFINING and key(a[3], kind) == reg)
                # other emitters handed the register (memory loads, constant loads, mov helpers): taken as defining it
                if "emit" in e.name or "load_constant" in e.name or "_mov_" in e.name:
                    return any(key(x, kind) == reg for x in a)
                return False

            def same_edge(reg):
                # prune the edge on which `reg` is known to BE a source register (src == dest): there it holds the source
                def flt(b, idx):
                    blk = f.blocks[b]
                    if blk.cond is None or f.edge_kind(b, idx) not in (True, False):
                        return True
                    c, pol = atom(blk.cond, f.edge_kind(b, idx))            # `!(a == b)`, `a != b`, ... are one atom
                    while c is not None and c.k == "ParenExpr":
                        c, pol = atom(c.c[0], pol)
                    if c is None or c.k != "BinaryOperator" or c.op not in ("!=", "=="):
                        return True
                    l, r = key(c.c[0], kind), key(c.c[1], kind)
                    if reg not in (l, r) or l is None or r is None:
                        return True
                    other = r if l == reg else l
                    if kind.get(other) != "src":
                        return True
                    equal_edge = (c.op == "==") == pol
                    return not equal_edge
                return flt
            # `punpckl?? x, R ; psra?/psrl? $w, R` with w = the width of the unpacked element: the lanes R contributed are shifted
            # out again (the sign/zero-extension idiom); R's earlier content does not reach the result and R is defined afterwards
            HALF = {"punpcklbw": ("psraw", "psrlw", 8), "punpckhbw": ("psraw", "psrlw", 8), "punpcklwd": ("psrad", "psrld", 16),
                    "punpckhwd": ("psrad", "psrld", 16), "punpckldq": ("psrlq", "psrlq", 32), "punpckhdq": ("psrlq", "psrlq", 32)}
            absorbed = set()
            for c in emits:
                rn = rowname(c)
                if rn not in HALF or c.name != "orc_x86_emit_cpuinsn_size":
                    continue
                reg = key(c.args()[4], kind)
                pos = f.pos(c)
                if reg is None or pos is None:
                    continue
                for e in f.blocks[pos[0]].el[pos[1] + 1:]:
                    if e.k == "CallExpr" and e.name in ("orc_x86_emit_cpuinsn_size", "orc_x86_emit_cpuinsn_imm") and len(e.args()) > 4 and \
                            (key(e.args()[4], kind) == reg or key(e.args()[3], kind) == reg):
                        if e.name == "orc_x86_emit_cpuinsn_imm" and key(e.args()[4], kind) == reg and rowname(e) in HALF[rn][:2] and \
                                strip_casts(e.args()[2]).v == HALF[rn][2]:
                            absorbed.add(c.id)
                        break
            _defines0 = defines

            def defines(e, reg, _d=_defines0):
                if e.k == "CallExpr" and e.id in absorbed and key(e.args()[4], kind) == reg:
                    return True
                return _d(e, reg)

            def norm_cond(cnd):
                """(text, polarity) of an atomic comparison over the function's constant locals, or None"""
                c, pol = atom(cnd, True)
                while c is not None and c.k == "ParenExpr":
                    c, pol = atom(c.c[0], pol)
                if c is None or c.k != "BinaryOperator" or c.op not in ("!=", "=="):
                    return None
                l, r = unparse(strip_casts(c.c[0])), unparse(strip_casts(c.c[1]))
                if l > r:
                    l, r = r, l
                return ("%s==%s" % (l, r), (c.op == "==") == pol)

            def undefined_path(c, reg):
                """a branch-consistent path from the entry to c on which nothing defines reg and reg is not known to be a source"""
                tp = f.pos(c)
                if tp is None:
                    return None
                flt = same_edge(reg)
                seen = set()
                stack = [(f.entry, ())]
                while stack:
                    b, facts = stack.pop()
                    if (b, facts) in seen or len(seen) > 4000:
                        continue
                    seen.add((b, facts))
                    blk = f.blocks[b]
                    els = blk.el[:tp[1]] if b == tp[0] else blk.el
                    if any(defines(e, reg) for e in els):
                        continue
                    if b == tp[0]:
                        return facts
                    for idx, s_ in enumerate(blk.succs):
                        if s_ is None or not flt(b, idx):
                            continue
                        nf = facts
                        ek = f.edge_kind(b, idx)
                        if blk.cond is not None and ek in (True, False):
                            nc = norm_cond(blk.cond)
                            if nc is not None:
                                val = nc[1] == ek
                                d_ = dict(facts)
                                if nc[0] in d_ and d_[nc[0]] != val:
                                    continue            # contradicts a comparison already taken the other way on this path
                                d_[nc[0]] = val
                                nf = tuple(sorted(d_.items()))
                        stack.append((s_, nf))
                return None
            bad = None
            for c in emits:
                a = c.args()
                rn = rowname(c)
                if rn is None:
                    continue
                reads = []
                s, d = key(a[3], kind), key(a[4], kind)
                if rn in SELF_DEFINING and s is not None and s == d:
                    continue
                if s is not None:
                    reads.append(s)
                if d is not None and rn not in PURE_WRITERS and c.id not in absorbed:
                    reads.append(d)
                for reg in reads:
                    if kind.get(reg) not in ("dest", "temp"):
                        continue
                    judged += 1
                    wit = undefined_path(c, reg)
                    if wit is not None and bad is None:
                        bad = (c, reg, rn)
            rep.saw(f)
            rep.check(bad is None, rule, where(f), f.name,
                      "every destination / scratch register is written before an emitted instruction reads it",
                      "%s emits `%s` with `%s` (the %s register) as a read-modify-write operand at line %s, and on a path where that register is not the "
                      "first source's register nothing has written it before: the rule is right only when the register allocator chains the destination onto "
                      "a source that dies here; with a source that is used again, a constant or a parameter, the result contains what the register held "
                      "before - it depends on the surrounding program and on earlier runs" %
                      (f.name, bad[2] if bad else "", bad[1] if bad else "", {"dest": "destination", "temp": "scratch"}.get(kind.get(bad[1]) if bad else "", ""),
                       bad[0].line if bad else "?"), line=bad[0].line if bad else None)
    if n < 150 or judged < 200:
        raise AnalysisBroken("only %d two-operand rule functions / %d read operands judged" % (n, judged))
    return n


def two_operand_source_preserved(db, rep, rule="D14-SOURCE-PRESERVED"):
    """The counterpart of D12.  The register of an Orc source operand is the register of a VARIABLE: unless the allocator chained
    the destination onto it (src == dest: the source dies at this instruction) the variable is read again later.  A two-operand
    rule must therefore not emit an instruction that WRITES a source's register on a path where that register is not known to be
    the destination's - a shift `in place` on the source, done to save a scratch copy, leaves a later instruction reading
    `src << 16` - wrong only in programs that use the value twice, under the flag subsets that select this rule."""
    import re
    from facts import init_rows
    rows = init_rows(db.tu("orcx86insn").global_("orc_x86_opcodes"))
    n = judged = 0
    for tub in ("orcrules-sse", "orcrules-mmx"):
        tu = db.tu(tub)
        for f in tu.main_functions():
            if "_rule_" not in f.name:
                continue
            kind = {}
            for vd in f.walk():
                if vd.k == "VarDecl" and vd.c and vd.c[0] is not None:
                    t = unparse(vd.c[0])
                    if "dest_args" in t and t.rstrip().endswith(".alloc"):
                        kind[vd.name] = "dest"
                    elif "src_args" in t and t.rstrip().endswith(".alloc"):
                        kind[vd.name] = "src"
            srcs = [k for k, v in kind.items() if v == "src"]
            dests = [k for k, v in kind.items() if v == "dest"]
            if not srcs or not dests:
                continue
            emits = [c for c in {c.id: c for c in f.calls()}.values() if c.name in ("orc_x86_emit_cpuinsn_size", "orc_x86_emit_cpuinsn_imm") and len(c.args()) > 4]
            if not emits:
                continue
            n += 1
            bad = None
            from flow import reaching_defs
            for c in emits:
                d = strip_casts(c.args()[4])
                if d is None or d.k != "DeclRefExpr":
                    continue
                if kind.get(d.name) != "src":
                    # a scratch name that was made an alias of a source register on some path (`tmp = src;`)
                    if d.name in kind:
                        continue
                    al = [df for df in reaching_defs(f, d.name, c) if strip_casts(df.c[1] if df.k == "BinaryOperator" else (df.c[0] if df.c else None)) is not None and
                          strip_casts(df.c[1] if df.k == "BinaryOperator" else df.c[0]).k == "DeclRefExpr" and
                          kind.get(strip_casts(df.c[1] if df.k == "BinaryOperator" else df.c[0]).name) == "src"]
                    if not al:
                        continue
                    judged += 1
                    srcname = strip_casts(al[0].c[1] if al[0].k == "BinaryOperator" else al[0].c[0]).name
                    same_at_def = False
                    for cd in Facts(f).conds(al[0]):
                        if cd[0] == "switch":
                            continue
                        e, pol = atom(cd[0], cd[1])
                        if e is not None and e.k == "BinaryOperator" and e.op in ("==", "!="):
                            names = {x.name for x in (strip_casts(e.c[0]), strip_casts(e.c[1])) if x is not None and x.k == "DeclRefExpr"}
                            if srcname in names and names & set(dests) and ((e.op == "==") == pol):
                                same_at_def = True
                    if not same_at_def and bad is None:
                        v_ = strip_casts(c.args()[1]).v
                        bad = (c, "%s (= %s, line %s)" % (d.name, srcname, al[0].line), rows[v_]["name"] if v_ is not None and 0 <= v_ < len(rows) else None)
                    continue
                judged += 1
                # known to be the destination's register here?  (must-fact src == dest, any spelling)
                same = False
                for cd in Facts(f).conds(c):
                    if cd[0] == "switch":
                        continue
                    e, pol = atom(cd[0], cd[1])
                    if e is not None and e.k == "BinaryOperator" and e.op in ("==", "!="):
                        l, r = strip_casts(e.c[0]), strip_casts(e.c[1])
                        names = {x.name for x in (l, r) if x is not None and x.k == "DeclRefExpr"}
                        if d.name in names and names & set(dests) and ((e.op == "==") == pol):
                            same = True
                    # a register constant test (src == X86_XMM0) followed by a restore is the save/restore idiom of convsssql: the
                    # write is the RESTORE of the saved value
                v = strip_casts(c.args()[1]).v
                rn = rows[v]["name"] if v is not None and 0 <= v < len(rows) else None
                s0 = strip_casts(c.args()[3])
                restore = rn in ("movdqa", "movq") and s0 is not None and s0.k == "DeclRefExpr" and kind.get(s0.name) is None and \
                    any(x.id != c.id and x.name in ("orc_x86_emit_cpuinsn_size",) and strip_casts(x.args()[3]) is not None and strip_casts(x.args()[3]).k == "DeclRefExpr"
                        and strip_casts(x.args()[3]).name == d.name and strip_casts(x.args()[4]) is not None and strip_casts(x.args()[4]).k == "DeclRefExpr"
                        and strip_casts(x.args()[4]).name == s0.name for x in emits)
                # `pxor K, src ... pxor K, src`: the sign-flip is undone by the same involution before the rule ends (an even number of
                # identical xors in one straight line) - the register holds the source again when the rule returns
                undone = False
                if rn == "pxor" and s0 is not None:
                    twins = [x for x in emits if x.name == c.name and strip_casts(x.args()[1]).v == v and unparse(strip_casts(x.args()[3])) == unparse(s0)
                             and strip_casts(x.args()[4]) is not None and strip_casts(x.args()[4]).k == "DeclRefExpr" and strip_casts(x.args()[4]).name == d.name]
                    pos = [f.pos(x) for x in twins]
                    undone = len(twins) % 2 == 0 and all(p_ is not None for p_ in pos) and len({p_[0] for p_ in pos}) == 1
                if not same and not restore and not undone and bad is None:
                    bad = (c, d.name, rn)
            rep.saw(f)
            rep.check(bad is None, rule, where(f), f.name, "no instruction writes the register of a source that may still be live",
                      "%s emits `%s` with the source register `%s` as its destination (line %s) on a path where that register is not known to be the "
                      "destination's: the source variable is still live there (the allocator shares the register only when the source dies), and a later "
                      "instruction reads the modified value" % (f.name, bad[2] if bad else "", bad[1] if bad else "", bad[0].line if bad else "?"),
                      line=bad[0].line if bad else None)
    if n < 100:
        raise AnalysisBroken("only %d two-operand rule functions with named source and destination registers" % n)
    return n
