"""C16 — object lifecycle: every resource is released exactly once (structural part).

  D1 R-OWN   heap-owning fields (computed from the stores of fresh allocations
             and ownership transfers) are all released by the owner's destructor
  D2 R-PAIR  every exit of orc_compiler_compile_program releases the compiler
             and its scratch; both release sites release the same set
  D3 R-PAIR  results of _orc_getenv / strsplit are freed by their callers; every block allocated into a local variable is
             freed, returned or handed over on every path to an exit (all library functions)
  D4 R-SET   a setter that stores a fresh allocation into an owning field
             releases (or refuses over) the previous value
  D5 R-MOVE  ownership transfers: take_code nulls the field; asm_code is not
             freed after it moved to the program
  D6 R-NULL  non-destructor releases null the field they freed
  D7 R-SYM   the code-chunk list links stay consistent across split/merge (shared with C09-D1):
             a stale link makes orc_code_chunk_free release a chunk another OrcCode still owns
"""
from facts import AnalysisBroken, access_path, strip_casts, unparse
from flow import Facts, single_defs, describe_path
from pairing import assigned_var, live_exit_paths, call_with_arg
from ownership import owned_fields, released_keys, object_key, is_alloc_expr, RELEASERS
from rules_common import where, incremented_paths, free_then_null

DESTRUCTORS = {
    "OrcProgram": ("orc_program_free", "orcprogram"),
    "OrcCode": ("orc_code_free", "orccode"),
    "OrcBytecode": ("orc_bytecode_free", "orcbytecode"),
    "OrcParseError": ("orc_parse_error_free", "orcparse"),
    # stack object: its scope is orc_parse_code
    "OrcParser": ("orc_parse_code", "orcparse"),
}
# fields of OrcParser handed to the caller, not released by the parser
PARSER_HANDOVER = {"program": "appended to the returned programs vector", "errors.items": "returned to the caller",
                   "programs.items": "returned to the caller"}


def run(ctx):
    db = ctx.db()
    rep = ctx.report
    rep.explanation = (
        "Ownership structure decided from the sources: the set of heap-owning fields of each record is computed from every store "
        "of a fresh allocation (or of another owning field) in the library and compared with what the record's destructor "
        "releases; exits of the compile driver are checked for releasing the compiler object and the same scratch set; callers of "
        "allocating helpers (_orc_getenv, strsplit) free the result on all paths; setters release or refuse over the old value; "
        "moves null their source; resets null what they free. Use-after-free across API-call histories is NOT decided.")
    rep.assumptions += ["allocator and releaser tables in lib/ownership.py", "process-lifetime registries (rule sets, code regions, opcode sets) have no destructor and are not instances"]
    funcs = [f for f in db.all_functions() if f.relfile.startswith("orc/")]
    own = owned_fields(db, funcs)

    # ---- D1 ------------------------------------------------------------------
    for rec, (dname, tub) in DESTRUCTORS.items():
        d = db.func(dname, tub)
        rep.saw(d)
        rel = released_keys(db, d)
        fields = own.get(rec, {})
        if rec != "OrcParser" and not fields:
            raise AnalysisBroken("no owning field computed for %s" % rec)
        for suf, srcs in sorted(fields.items()):
            if rec == "OrcParser" and (suf == "program" or all(how.startswith("transfer from OrcParser.program") for _f, _n, how in srcs)):
                continue            # the current program (owned by the programs vector) and fields that only ever alias it
            ok = (rec, suf) in rel
            moved = False
            if not ok and rec == "OrcParser":
                # transferred out of the parser inside its scope?
                for n in d.walk():
                    if n.k == "BinaryOperator" and n.op == "=":
                        r = strip_casts(n.c[1])
                        if r is not None and r.k in ("MemberExpr",) and object_key(r) == (rec, suf):
                            moved = True
            how = sorted({"%s in %s" % (s[2], s[0].name) for s in srcs})[:3]
            rep.check(ok or moved, "D1-R-OWN", where(d), "%s.%s" % (rec, suf),
                      "owning field (%s) is released by %s" % ("; ".join(how), dname),
                      "%s.%s owns heap memory (%s) but %s never releases it" % (rec, suf, "; ".join(how), dname))
    rep.floor("D1-R-OWN", 14)

    # ---- D2 compile exits ------------------------------------------------------
    cp = db.func("orc_compiler_compile_program", "orccompiler")
    rep.saw(cp)
    frees = [c for c in cp.calls("free") if access_path(c.args()[0]) == "compiler"]
    rets = [r for r in cp.walk() if r.k == "ReturnStmt"]
    # every return must be preceded on all paths by free(compiler)
    fset = {c.id for c in frees}
    from collections import deque
    for r in rets:
        rpos = cp.pos(r)
        # search path entry -> r avoiding free(compiler)
        seen = set()
        dq = deque([(cp.entry, (cp.entry,))])
        wit = None
        while dq:
            b, path = dq.popleft()
            if b in seen:
                continue
            seen.add(b)
            blk = cp.blocks[b]
            hit = False
            for e in blk.el:
                if e.id in fset:
                    hit = True
                    break
                if e is r:
                    wit = path
                    break
            if wit is not None:
                break
            if hit:
                continue
            for s in blk.succs:
                if s is not None:
                    dq.append((s, path + (s,)))
        rep.check(wit is None, "D2-COMPILE-EXITS", where(cp), "return@%s" % (unparse(r.c[0])[:40] if r.c else ""),
                  "the compiler object handed in by orc_program_compile_full is freed before this exit",
                  "this exit returns without free(compiler): the OrcCompiler allocated by orc_program_compile_full leaks (%s)" %
                  (describe_path(cp, list(wit)) if wit else ""), line=r.line)
    if len(frees) < 2:
        raise AnalysisBroken("expected two free(compiler) sites (success and error), found %d" % len(frees))
    # release sets at each free(compiler) site
    comp_owned = set(own.get("OrcCompiler", {})) - {"codeptr", "labels[]", "fixups[].ptr"}
    site_sets = []
    for fr in frees:
        rel = set()
        moved = set()
        for c in cp.calls("free"):
            a = strip_casts(c.args()[0])
            if a.k in ("MemberExpr", "ArraySubscriptExpr") and object_key(a)[0] == "OrcCompiler" and cp.dominates(c, fr) is not None:
                # c must lie in the same exit region: c reaches fr without passing another free(compiler)
                pc, pf = cp.pos(c), cp.pos(fr)
                if pc and pf and pf[0] in cp.reachable_blocks(pc[0], avoid={cp.pos(o)[0] for o in frees if o is not fr and cp.pos(o)[0] != pf[0]}):
                    if not any(cp.pos(o)[0] in cp.reachable_blocks(pc[0]) and cp.dominates(c, o) and cp.dominates(o, fr) for o in frees if o is not fr):
                        rel.add(object_key(a)[1])
        for n in cp.walk():
            if n.k == "BinaryOperator" and n.op == "=":
                r = strip_casts(n.c[1])
                if r is not None and r.k == "MemberExpr" and object_key(r)[0] == "OrcCompiler" and object_key(strip_casts(n.c[0]))[0] == "OrcProgram" \
                        and cp.dominates(n, fr):
                    moved.add(object_key(r)[1])
        site_sets.append((fr, rel, moved))
    for fr, rel, moved in site_sets:
        is_err = any(b.lab and b.lab.get("name") == "error" and b.id in cp.dom().get(cp.pos(fr)[0], ()) for b in cp.blocks.values())
        # the compiler can own something only after it was handed to a callee
        # (or assigned an allocation here) on some path reaching this site
        may_own = False
        pf = cp.pos(fr)
        for e in cp.walk():
            hands = False
            if e.k == "CallExpr" and any(a is not None and access_path(a) == "compiler" for a in e.c):
                hands = e.name not in ("free",)
            if e.k == "BinaryOperator" and e.op == "=" and (access_path(e.c[0]) or "").startswith("compiler->") and \
                    is_alloc_expr(e.c[1], {}) is not None:
                hands = True
            if hands and cp.pos(e) and pf[0] in cp.reachable_blocks(cp.pos(e)[0]) and e is not fr:
                may_own = True
        need = set(comp_owned) if may_own else set()
        if not is_err:
            need.discard("error_msg")   # cleared errors on the success exit: value question, not an instance (DESIGN C16-D2)
        missing = sorted(need - rel - moved)
        rep.check(not missing, "D2-COMPILE-EXITS", where(cp), "%s-exit-releases" % ("error" if is_err else "success"),
                  "releases %s, moves %s before free(compiler)" % (sorted(rel), sorted(moved)),
                  "the %s exit frees the compiler but not its %s (owned fields: %s)" % ("error" if is_err else "success", missing, sorted(comp_owned)),
                  line=fr.line)

    # ---- D3 allocating helpers ---------------------------------------------------
    n3 = 0
    for helper, rels in (("_orc_getenv", ("free",)), ("strsplit", None)):
        for f, call in db.callers().get(helper, []):
            if f.name == helper:
                continue
            var, st = assigned_var(call)
            if var is None:
                continue
            n3 += 1
            rep.saw(f)
            if "->" not in var and "." not in var and any(g["name"] == var for g in f.tu.globals):
                rep.ok("D3-HELPER-OWNERSHIP", where(f), "%s->%s" % (helper, var), "stored in a process-lifetime global")
                continue
            rel = lambda e, v=var: call_with_arg(e, ("free",), v)
            paths = live_exit_paths(f, call, var, {"NULL"}, rel, None)
            rep.check(not paths, "D3-HELPER-OWNERSHIP", where(f), "%s->%s" % (helper, var),
                      "copy returned by %s() is freed on every path where it is non-NULL" % helper,
                      "the string returned by %s() is never freed on: %s" % (helper, describe_path(f, paths[0]) if paths else ""), line=call.line)
    if n3 < 3:
        raise AnalysisBroken("expected >=3 callers of _orc_getenv/strsplit, found %d" % n3)

    # ---- D3b local allocations -------------------------------------------------------
    # A block allocated into a LOCAL variable must, on every path to an exit of the function, be freed, returned, stored
    # somewhere that outlives the call (field, global, out-parameter, array element) or handed to a callee that is not known
    # to be non-owning.  (Early returns added in front of the cleanup are the classic way to break this.)
    ALLOCS = ("orc_malloc", "malloc", "calloc", "strdup", "_strndup", "orc_strdup")
    NON_OWNING = {"memset", "memcpy", "memmove", "strcpy", "strncpy", "strcat", "sprintf", "snprintf", "vsnprintf", "strlen", "strcmp", "strncmp",
                  "fprintf", "printf", "qsort", "orc_debug_print", "mkstemp", "unlink", "strchr", "strstr", "strtol", "strtod"}
    # functions that hand out a fresh block: they return a local that was assigned from an allocator (fixpoint)
    ALLOCS = set(ALLOCS)
    changed = True
    while changed:
        changed = False
        for g in funcs:
            if g.name in ALLOCS or "*" not in (g.ret or ""):
                continue
            fresh = {assigned_var(c)[0] for c in g.calls() if c.name in ALLOCS}
            rets = [strip_casts(r.c[0]) for r in g.walk() if r.k == "ReturnStmt" and r.c and r.c[0] is not None]
            if fresh and any(r is not None and r.k == "DeclRefExpr" and r.name in fresh for r in rets):
                ALLOCS.add(g.name)
                changed = True
    rep.extra["allocating_functions"] = sorted(ALLOCS)
    n3b = 0
    OUT_ALLOCS = {"vasprintf": 0, "asprintf": 0}
    for f in funcs:
        locs = {x.name for x in f.walk() if x.k == "VarDecl" and not x.get("static")}
        for c in f.calls():
            if c.name in OUT_ALLOCS:
                # allocation through an out-parameter: vasprintf (&s, ...)
                a0 = strip_casts(c.args()[OUT_ALLOCS[c.name]]) if len(c.args()) > OUT_ALLOCS[c.name] else None
                var = access_path(a0.c[0]) if a0 is not None and a0.k == "UnaryOperator" and a0.op == "&" else None
            elif c.name in ALLOCS:
                var, st = assigned_var(c)
            else:
                continue
            if var is None or var not in locs:
                continue

            def settles(e, v=var):
                if e.k == "CallExpr":
                    if e.name in ("free", "orc_free") and any(a is not None and access_path(a) == v for a in e.args()):
                        return True
                    if e.name and e.name not in NON_OWNING and e.name not in ALLOCS and any(a is not None and access_path(a) == v for a in e.args()):
                        return True                     # handed to a callee that may take ownership
                    return False
                if e.k == "ReturnStmt" and e.c and e.c[0] is not None and v in {access_path(x) for x in e.c[0].walk()}:
                    return True
                if e.k == "BinaryOperator" and e.op == "=" and access_path(e.c[1]) == v:
                    l = strip_casts(e.c[0])
                    lp = access_path(l) or ""
                    if l is not None and (l.k in ("MemberExpr", "ArraySubscriptExpr", "UnaryOperator") or lp not in locs):
                        return True                     # stored into a field / array element / *out / global
                return False
            n3b += 1
            paths = live_exit_paths(f, c, var, {"NULL"}, settles, None)
            rep.check(not paths, "D3b-LOCAL-ALLOC", where(f), "%s->%s" % (c.name, var),
                      "the block allocated into `%s` is freed, returned or handed over on every path" % var,
                      "%s allocates `%s` with %s and can return without freeing or handing it over (%s): a leak per call on that path" %
                      (f.name, var, c.name, describe_path(f, paths[0]) if paths else ""), line=c.line)
    if n3b < 10:
        raise AnalysisBroken("only %d local allocations found in the library" % n3b)
    # ... and a fresh block passed straight into a callee that does not take ownership of that argument (it only copies or
    # reads it) is lost at once: orc_program_set_name (p, make_string ()) with set_name doing strdup
    COPYING = NON_OWNING | {"strdup", "orc_strdup", "_strndup", "strndup", "memcmp", "atoi", "strtoll", "_strtoll"}

    def param_borrowed(g, i, depth=0):
        """True if parameter i of g is only read: never freed, stored, returned or handed to a callee that might keep it."""
        if g.body is None or i >= len(g.params):
            return False
        nm = g.params[i]["name"]
        for x in g.walk():
            if x.k == "DeclRefExpr" and x.name == nm and x.get("dk") == "param":
                par = x.parent
                while par is not None and par.k in ("ParenExpr", "CStyleCastExpr", "ImplicitCastExpr"):
                    par = par.parent
                if par is None:
                    return False
                if par.k == "CallExpr":
                    if par.name in COPYING:
                        continue
                    if par.name in ("free", "orc_free"):
                        return False
                    try:
                        h = db.func(par.name) if par.name else None
                    except AnalysisBroken:
                        h = None
                    j = next((k for k, a in enumerate(par.args()) if any(y is x for y in a.walk())), None)
                    if h is not None and j is not None and depth < 2 and param_borrowed(h, j, depth + 1):
                        continue
                    return False
                if par.k == "BinaryOperator" and par.op in ("==", "!=", "&&", "||", "<", ">"):
                    continue
                if par.k in ("UnaryOperator",) and par.op in ("!", "*"):
                    continue
                if par.k in ("IfStmt", "ConditionalOperator", "ArraySubscriptExpr"):
                    continue
                return False            # assigned somewhere, returned, ...
        return True
    nd = 0
    for f in funcs:
        for c in f.calls():
            if c.name not in ALLOCS:
                continue
            par = c.parent
            while par is not None and par.k in ("ParenExpr", "CStyleCastExpr", "ImplicitCastExpr"):
                par = par.parent
            if par is None or par.k != "CallExpr" or par is c or not par.name:
                continue
            try:
                g = db.func(par.name)
            except AnalysisBroken:
                continue
            j = next((k for k, a in enumerate(par.args()) if any(y is c for y in a.walk())), None)
            if j is None:
                continue
            nd += 1
            rep.check(not param_borrowed(g, j), "D3b-LOCAL-ALLOC", where(f), "%s(%s())" % (par.name, c.name),
                      "%s takes over the block %s allocates" % (par.name, c.name),
                      "%s passes the block returned by %s() straight to %s, which only reads or copies that argument: nothing can free the block any more "
                      "(one leak per call)" % (f.name, c.name, par.name), line=c.line)
    rep.extra["allocations_passed_directly"] = nd

    # ---- D4 setters -------------------------------------------------------------
    n4 = 0
    for rec in ("OrcProgram", "OrcParser"):
        for suf, srcs in own.get(rec, {}).items():
            for f, n, how in srcs:
                if how.startswith("transfer"):
                    continue
                l = strip_casts(n.c[0])
                root = None
                x = l
                while x is not None and x.k in ("MemberExpr", "ArraySubscriptExpr"):
                    x = strip_casts(x.c[0])
                if x is None or x.k != "DeclRefExpr":
                    continue
                # constructors / appends are not setters
                sd = single_defs(f)
                fresh_obj = x.name in sd and is_alloc_expr(sd[x.name], sd) is not None
                cnt = incremented_paths(f)
                idx_nodes = [y for y in l.walk() if y.k == "ArraySubscriptExpr"]
                from flow import linear
                append = False
                for ix in idx_nodes:
                    lin = linear(ix.c[1], lambda nm: sd.get(nm))
                    if lin and lin[0] and any(p in cnt for p in lin[0].split("+")):
                        append = True
                    # index local with several definitions: the one that dominates the store and is the latest before it decides
                    iv = strip_casts(ix.c[1])
                    if not append and iv is not None and iv.k == "DeclRefExpr" and iv.name not in sd:
                        defs = [d for d in f.walk() if d.k == "BinaryOperator" and d.op == "=" and access_path(d.c[0]) == iv.name and f.dominates(d, n)]
                        if defs:
                            last = max(defs, key=lambda d: (d.line, d.id))
                            between = [d for d in f.walk() if d.k == "BinaryOperator" and d.op == "=" and access_path(d.c[0]) == iv.name and d is not last and
                                       f.dominates(last, d) and f.pos(d) and f.pos(n) and f.pos(n)[0] in f.reachable_blocks(f.pos(d)[0])]
                            lin2 = linear(last.c[1], lambda nm: sd.get(nm))
                            if not between and lin2 and lin2[0] and any(p in cnt for p in lin2[0].split("+")):
                                append = True
                if fresh_obj or append or f.name in ("orc_bytecode_parse_function",) and False:
                    continue
                n4 += 1
                rep.saw(f)
                lp = access_path(l)
                if rec == "OrcParser" and suf in PARSER_HANDOVER:
                    n4 -= 1
                    continue
                # path search entry -> store: a path on which the field may hold a
                # live value (not known NULL) and no release of it is passed
                from pairing import failure_edge
                relnames = set(RELEASERS) 
                def is_rel(e, pp=lp):
                    if e.k != "CallExpr":
                        return False
                    if e.name in relnames and e.args() and access_path(e.args()[0]) == pp:
                        return True
                    if e.name and e.name not in relnames and db.has_func(e.name):
                        return (rec, suf) in released_keys(db, db.func(e.name), 0)
                    return False
                tgt = f.pos(n)
                seen = set()
                stack = [(f.entry, (f.entry,))]
                wit = None
                while stack and wit is None:
                    b_, path = stack.pop()
                    if b_ in seen:
                        continue
                    seen.add(b_)
                    blk = f.blocks[b_]
                    hit = False
                    for i_, e in enumerate(blk.el):
                        if b_ == tgt[0] and i_ >= tgt[1]:
                            wit = path
                            break
                        if is_rel(e):
                            hit = True
                            break
                    if wit is not None or hit:
                        continue
                    for idx, s_ in enumerate(blk.succs):
                        if s_ is None:
                            continue
                        ek = f.edge_kind(b_, idx)
                        if blk.cond is not None and ek in (True, False) and failure_edge(blk.cond, ek, lp, {"NULL"}):
                            continue     # field known NULL here: nothing to release
                        stack.append((s_, path + (s_,)))
                freed_before = wit is None
                guarded = helper_free = False
                rep.check(freed_before or guarded or helper_free, "D4-SETTER", where(f), "%s.%s" % (rec, suf),
                          "previous value released (or field known NULL) before the new allocation is stored",
                          "%s overwrites %s with a fresh %s without releasing the old value: each repeated call leaks it" % (f.name, lp, how), line=n.line)
    rep.floor("D4-SETTER", 5)

    # ---- D5 moves ---------------------------------------------------------------
    tk = db.func("orc_program_take_code", "orcprogram")
    rep.saw(tk)
    ret = [r for r in tk.walk() if r.k == "ReturnStmt" and r.c]
    sd = single_defs(tk)
    src = None
    for r in ret:
        e = strip_casts(r.c[0])
        if e.k == "DeclRefExpr" and e.name in sd:
            src = access_path(sd[e.name])
        else:
            src = access_path(e)
    nulled = any(n.k == "BinaryOperator" and n.op == "=" and access_path(n.c[0]) == src and strip_casts(n.c[1]).v == 0 for n in tk.walk())
    rep.check(src is not None and nulled, "D5-MOVE", where(tk), "take:%s" % src,
              "the field handed to the caller is set to NULL", "orc_program_take_code returns %s without clearing it: program and caller both free the code object" % src)
    # asm_code moved on success: not freed afterwards on that path
    mv = [n for n in cp.walk() if n.k == "BinaryOperator" and n.op == "=" and access_path(n.c[0]) == "program->asm_code"
          and access_path(n.c[1]) == "compiler->asm_code"]
    if not mv:
        rep.info("asm_code is no longer moved from the compiler to the program")
    for m in mv:
        later = [c for c in cp.calls("free") if access_path(c.args()[0]) in ("compiler->asm_code", "program->asm_code") and cp.dominates(m, c)]
        rep.check(not later, "D5-MOVE", where(cp), "asm_code-moved", "listing moved to the program is not freed on the success exit",
                  "asm_code is freed after it was moved to the program (double free at orc_program_free)", line=m.line)

    # ---- D6 free-then-null -------------------------------------------------------
    n6 = 0
    for fn, tub in (("orc_program_reset", "orcprogram"), ("orc_compiler_compile_program", "orccompiler"), ("orc_parse_free_line", "orcparse"),
                    ("orc_parse_handle_init", "orcparse"), ("orc_program_set_name", "orcprogram"), ("orc_program_set_backup_name", "orcprogram")):
        f = db.func(fn, tub)
        rep.saw(f)
        n6 += free_then_null(f, rep, "D6-FREE-THEN-NULL", ("OrcProgram", "OrcParser"))
    # ---- D7: the chunk list stays consistent across split / merge -----------------------
    # (orc_code_chunk_free merges through prev/next: a stale link releases a chunk that a live OrcCode still owns)
    import importlib
    importlib.import_module("rules.c09").d1(db, rep, "D7-CHUNK-LINKS", "D7-CHUNK-LINKS")
    # D8: no stale copy of a program's code is used while the program is attached (shared with C06)
    importlib.import_module("rules.c06").snapshot_slots(db, rep, "D8-LIVE-CODE")
    # D9: descriptor, file name and mappings acquired while a code region is created are released on every exit of the attempt
    # (a compile that cannot get executable memory repeats the attempt each time: a leak there grows with the iterations; shared with C06)
    importlib.import_module("rules.c06").dual_map_pairing(db, rep, "D9-OS-RESOURCES")
    # D10: the destructor of the code object releases what the object owns on every path on which it owns it (shared with C09)
    importlib.import_module("rules.c09").d8_owned_fields_released(db, rep, "D10-OWNED-RELEASED")
    # D11: "no use-after-free, no double free": the chunk list (merge / free of chunk structs) is only touched with the global
    # mutex held - a chunk that shows up as free before the freeing thread holds the lock can be handed out and merged away
    # (rule shared with C08 D1)
    importlib.import_module("rules.c08").d1(db, rep, "D11-ALLOCATOR-LOCKED")
    d12_borrowed_names(db, rep)
    d13_setter_alias(db, rep, funcs)

    if n6 < 6:
        raise AnalysisBroken("only %d free-then-null instances found" % n6)


def d12_borrowed_names(db, rep, rule="D12-BORROWED-NAMES"):
    """compiler->vars[] starts as a shallow copy of program->vars[]: the name strings of slots below
    ORC_VAR_T1 + n_temp_vars belong to the PROGRAM and are freed by orc_program_free.  The compiler owns only the names it
    allocates itself, for the temporaries it appends behind the program's (orc_compiler_new_temporary / _dup_temporary).  A
    `free (compiler->vars[i].name)` whose index is not provably in that range frees a string the program still owns -
    double free at orc_program_free, use after free in every later lookup by name.  (0, the constructors' failure value, is
    ORC_VAR_D1.)"""
    from flow import Facts
    t1 = db.enum("ORC_VAR_T1")
    n = 0
    for f in db.tu("orccompiler").main_functions():
        cp = [p_["name"] for p_ in f.params if "OrcCompiler" in (p_.get("ty") or "")]
        loc = [v.name for v in f.walk() if v.k == "VarDecl" and "OrcCompiler" in (v.get("ty") or "")]
        roots = set(cp + loc)
        if not roots:
            continue
        fc = None
        for c in f.calls("free"):
            a = strip_casts(c.args()[0]) if c.args() else None
            if a is None or a.k != "MemberExpr" or a.name != "name":
                continue
            base = strip_casts(a.c[0])
            if base is None or base.k != "ArraySubscriptExpr" or not any((access_path(base.c[0]) or "") == "%s->vars" % r for r in roots):
                continue
            n += 1
            rep.saw(f)
            idx = base.c[1]

            def terms(e):
                e = strip_casts(e)
                while e is not None and e.k == "ParenExpr":
                    e = strip_casts(e.c[0])
                if e is not None and e.k == "BinaryOperator" and e.op == "+":
                    return terms(e.c[0]) + terms(e.c[1])
                return [e]
            ts = terms(idx)
            const = sum(t.v for t in ts if t is not None and t.v is not None)
            ok = const >= t1 and any((access_path(t) or "").endswith("n_temp_vars") for t in ts if t is not None)
            if not ok:
                fc = fc or Facts(f)
                it = unparse(strip_casts(idx))
                for cd in fc.conds(c):
                    if cd[0] == "switch":
                        continue
                    e, pol = strip_casts(cd[0]), cd[1]
                    if e.k == "BinaryOperator" and e.op in (">=", ">", "<", "<=") and unparse(strip_casts(e.c[0])) == it:
                        lowered = (e.op in (">=", ">")) == bool(pol)
                        rv = strip_casts(e.c[1]).v
                        if lowered and rv is not None and rv >= t1 - (1 if e.op in (">", "<=") else 0):
                            ok = True
            rep.check(ok, rule, where(f), "%s@%s" % (f.name, c.line), "only names of the compiler's own temporaries are freed",
                      "%s frees compiler->vars[%s].name (line %s) and the index is not provably a compiler temporary's (ORC_VAR_T1 + n_temp_vars + k): "
                      "for any other slot - 0 = ORC_VAR_D1 is what the temporary constructors return when they refuse - the string belongs to the program, "
                      "which frees it again in orc_program_free and reads it in every lookup by name" % (f.name, unparse(idx)[:60], c.line), line=c.line)
    if n < 2:
        raise AnalysisBroken("only %d frees of compiler variable names found" % n)
    return n


def d13_setter_alias(db, rep, funcs, rule="D13-SETTER-ALIAS"):
    """A setter that replaces an owned string must read its argument before it releases the old value: the getters hand out
    the owned pointer itself (orc_program_get_name: "valid until the name is changed"; the records are public too), so
    `set (p, get (p))` passes the very block the setter is about to free.  Instance: a `free (X->field)` (X a parameter, field
    of character-pointer type) from which a read of ANOTHER pointer-to-char parameter is reachable.  Duplicating first and
    releasing afterwards is the accepted form."""
    n = 0
    for f in funcs:
        ptr = [p_["name"] for p_ in f.params if "*" in (p_.get("ty") or "")]
        chp = [p_["name"] for p_ in f.params if (p_.get("ty") or "").replace("const ", "").replace(" ", "") == "char*"]
        if not chp or len(ptr) < 2:
            continue
        assigned = set(access_path(e.c[0]) for e in f.walk() if e.k == "BinaryOperator" and e.op == "=")
        for c in f.calls("free"):
            a = strip_casts(c.args()[0]) if c.args() else None
            if a is None or a.k != "MemberExpr" or "char" not in (a.ty or ""):
                continue
            lp = access_path(a) or ""
            root = lp.split("->")[0].split(".")[0].split("[")[0]
            if root not in ptr:
                continue
            pc = f.pos(c)
            if pc is None:
                continue
            after = f.reachable_blocks(pc[0])
            cyc = any(pc[0] in f.reachable_blocks(s_) for s_ in f.blocks[pc[0]].succs if s_ is not None)
            for q in chp:
                if q == root or q in assigned:
                    continue
                n += 1
                rep.saw(f)
                bad = None
                # the other accepted form: the release is guarded by `arg != field` (or follows an early return on equality)
                distinct = False
                for cd in Facts(f).conds(c):
                    if cd[0] == "switch":
                        continue
                    e, pol = strip_casts(cd[0]), cd[1]
                    if e is not None and e.k == "BinaryOperator" and e.op in ("==", "!=") and \
                            set((access_path(strip_casts(e.c[0])), access_path(strip_casts(e.c[1])))) == set((q, lp)) and (e.op == "!=") == bool(pol):
                        distinct = True
                for u in ([] if distinct else f.walk()):
                    if u.k != "DeclRefExpr" or u.name != q:
                        continue
                    pu = f.pos(u)
                    if pu is None:
                        continue
                    if (pu[0] == pc[0] and (pu[1] > pc[1] or cyc)) or (pu[0] != pc[0] and pu[0] in after):
                        # a comparison against the field itself (if (name != p->name)) is the guard, not a read of the block
                        par = u.parent
                        while par is not None and par.k in ("ImplicitCastExpr", "ParenExpr", "CStyleCastExpr"):
                            par = par.parent
                        if par is not None and par.k == "BinaryOperator" and par.op in ("==", "!="):
                            continue
                        bad = u
                        break
                rep.check(bad is None, rule, where(f), "%s:%s<-%s" % (f.name, lp, q),
                          "argument is read (duplicated) before the old value of the field is released",
                          "%s frees %s (line %s) and reads its argument '%s' afterwards (line %s): the getter hands out the field's own "
                          "pointer, so set (p, get (p)) duplicates a block that was just freed (use after free)"
                          % (f.name, lp, c.line, q, bad.line if bad is not None else "?"), line=c.line)
    if n < 2:
        raise AnalysisBroken("only %d setters that free a string field and take a string argument found" % n)
    return n
