"""C09 — code memory stays consistent (three structural necessary conditions).

  D1 split/merge conserve the tiling (symbolic straight-line evaluation)
  D2 write and exec pointers use the same offset; split only when larger, by aligned size
  D3 the copy into the chunk is bounded by the size that was allocated
  D4 the free-chunk search visits every region and every chunk (necessary for reuse of freed memory)
Non-overlap / reuse over histories, coalescing completeness, region growth: NOT decided.
"""
from facts import Locals, AnalysisBroken, access_path, strip_casts, unparse
from flow import single_defs, Facts
from symexec import Heap, Lin
from rules_common import where


def d1(db, rep, split_rule="D1-SPLIT", merge_rule="D1-MERGE"):
    """split/merge conserve the tiling and keep the doubly linked chunk list consistent."""
    sp = db.func("orc_code_chunk_split", "orccodemem")
    mg = db.func("orc_code_chunk_merge", "orccodemem")
    rep.saw(sp)
    rep.saw(mg)

    # ---- D1 split ------------------------------------------------------------
    rec = db.record("OrcCodeChunk")
    fields = [f["name"] for f in rec["fields"]]
    if len(sp.params) != 2:
        raise AnalysisBroken("orc_code_chunk_split: expected (chunk, size) parameters")
    C, SZ = sp.params[0]["name"], sp.params[1]["name"]
    h = Heap({C: fields})
    h.run([sp.body])
    opaque = [x for x in h.log if x[0] == "opaque"]
    if opaque:
        raise AnalysisBroken("orc_code_chunk_split contains statements the symbolic evaluator cannot interpret: %s" % opaque[:3])
    allocs = [x[1] for x in h.log if x[0] == "alloc"]
    new = h.vars.get(allocs[0]) if allocs else None
    newsym = new.single() if new is not None else None
    if newsym is None:
        raise AnalysisBroken("orc_code_chunk_split: new chunk object not identified")
    size = Lin.sym(SZ)
    off0, size0 = Lin.sym("%s.offset@0" % C), Lin.sym("%s.size@0" % C)
    next0, region0 = Lin.sym("%s.next@0" % C), Lin.sym("%s.region@0" % C)
    F = h.fields
    obligations = [
        ("new.offset == old.offset + size", F.get((newsym, "offset")) == off0 + size),
        ("old'.size + new.size == old.size", F.get((C, "size")) is not None and F.get((newsym, "size")) is not None and (F[(C, "size")] + F[(newsym, "size")]) == size0),
        ("old'.size == size", F.get((C, "size")) == size),
        ("old'.offset unchanged", (C, "offset") not in F or F[(C, "offset")] == off0),
        ("new.region == old.region", F.get((newsym, "region")) == region0),
        ("new.prev == old", F.get((newsym, "prev")) == Lin.sym(C)),
        ("new.next == old.next", F.get((newsym, "next")) == next0),
        ("old'.next == new", F.get((C, "next")) == Lin.sym(newsym)),
        # zero-filled, stored as 0, or copied from the chunk being split (which D2 `return-chunk` shows to be unused)
        ("new.used == 0 (zero-filled)", (any(c[0] == "call" and c[1][0] in ("memset", "calloc") for c in h.log) and (newsym, "used") not in F) or
         F.get((newsym, "used")) in (Lin(const=0), Lin.sym("%s.used@0" % C))),
    ]
    back = [x for x in h.log if x[0] == "cond-final" and x[1][0] == ("%s.next@0" % C, "prev")]
    obligations.append(("old.next.prev == new when old.next != NULL", bool(back) and back[0][1][1] == Lin.sym(newsym) and "next" in back[0][1][2]))
    ret = [x for x in h.log if x[0] == "return"]
    obligations.append(("returns the new chunk", bool(ret) and ret[-1][1] == Lin.sym(newsym)))
    for name, ok in obligations:
        rep.check(bool(ok), split_rule, where(sp), name, "holds symbolically: %s" % name,
                  "split breaks the tiling identity `%s` (post-state: %s)" % (name, {k: repr(v) for k, v in F.items()}))

    # ---- D1 merge ------------------------------------------------------------
    if len(mg.params) != 1:
        raise AnalysisBroken("orc_code_chunk_merge: expected one parameter")
    C = mg.params[0]["name"]
    h = Heap({C: fields})
    h.run([mg.body])
    opaque = [x for x in h.log if x[0] == "opaque"]
    if opaque:
        raise AnalysisBroken("orc_code_chunk_merge contains statements the symbolic evaluator cannot interpret: %s" % opaque[:3])
    F = h.fields
    # the chunk that is merged away: the local holding chunk->next
    c2names = [nm for nm, v in h.vars.items() if v is not None and v.single() == "%s.next@0" % C]
    if len(c2names) != 1:
        raise AnalysisBroken("orc_code_chunk_merge: no single local holds %s->next (%s)" % (C, c2names))
    c2name = c2names[0]
    c2sym = "%s.next@0" % C
    obligations = [
        ("c'.size == c.size + c2.size", F.get((C, "size")) == Lin.sym("%s.size@0" % C) + Lin.sym("%s.size@0" % c2sym)),
        ("c'.next == c2.next", F.get((C, "next")) == Lin.sym("%s.next@0" % c2sym)),
        ("c'.offset unchanged", (C, "offset") not in F),
    ]
    back = [x for x in h.log if x[0] == "cond-final" and x[1][0] == ("%s.next@0" % c2sym, "prev")]
    obligations.append(("c2.next.prev == c when c2.next != NULL", bool(back) and back[0][1][1] == Lin.sym(C)))
    frees = [x for x in h.log if x[0] == "call" and x[1][0] == "free"]
    obligations.append(("c2 freed exactly once", len(frees) == 1 and frees[0][1][1][0] == Lin.sym(c2sym)))
    # freed after its last use
    fr = [c for c in mg.calls("free")]
    last_use_ok = True
    if fr:
        for n in mg.walk():
            if n.k == "DeclRefExpr" and n.name == c2name and n.line > fr[0].line:
                last_use_ok = False
    obligations.append(("no use of c2 after free", last_use_ok))
    for name, ok in obligations:
        rep.check(bool(ok), merge_rule, where(mg), name, "holds symbolically: %s" % name,
                  "merge breaks the identity `%s` (post-state: %s)" % (name, {k: repr(v) for k, v in F.items()}))
    # merge callers: only adjacent free chunks are merged
    cf = db.func("orc_code_chunk_free", "orccodemem")
    rep.saw(cf)
    fc = Facts(cf)
    P = cf.params[0]["name"]
    for c in cf.calls("orc_code_chunk_merge"):
        arg = unparse(c.args()[0])
        conds = [(unparse(x[0]), x[1]) for x in fc.conds(c) if x[0] != "switch"]
        if arg == P:
            need = [("%s->next" % P, True), ("%s->next->used" % P, False)]
            inst = "merge(chunk)-guard"
        elif arg == "%s->prev" % P:
            need = [("%s->prev" % P, True), ("%s->prev->used" % P, False)]
            inst = "merge(chunk->prev)-guard"
        else:
            need, inst = None, "merge(?)-guard"
        ok = need is not None and all(n_ in conds for n_ in need)
        rep.check(ok, merge_rule, where(cf), inst, "merge only with an existing, unused neighbour (%s)" % need,
                  "orc_code_chunk_free merges %s without establishing %s (facts: %s)" % (arg, need, conds), line=c.line)
    used_clear = [n for n in cf.walk() if n.k == "BinaryOperator" and n.op == "=" and access_path(n.c[0]) == "%s->used" % P and strip_casts(n.c[1]).v == 0]
    rep.check(bool(used_clear), merge_rule, where(cf), "chunk->used=FALSE", "freed chunk is marked unused", "orc_code_chunk_free no longer marks the chunk unused")



def run(ctx):
    db = ctx.db()
    rep = ctx.report
    rep.explanation = (
        "Three structural necessary conditions of allocator consistency: the field assignments of orc_code_chunk_split and "
        "orc_code_chunk_merge are evaluated symbolically (linear expression rewriting over the pre-state) and compared with the "
        "tiling identities (offsets adjacent, sizes sum to the old size, list links consistent, merged chunk freed after its last "
        "use); orc_code_allocate_codemem derives code and exec from the same chunk offset, marks the chunk used and splits only a "
        "larger chunk by the aligned size; the memcpy into the chunk copies exactly the size passed to the allocator, whose "
        "rounding never shrinks it. Histories of compiles and frees are NOT explored.")
    rep.assumptions += ["linear integer arithmetic without overflow in chunk offsets/sizes (all below the 64 KiB region size)"]
    d1(db, rep)

    # ---- D2 ------------------------------------------------------------------
    al = db.func("orc_code_allocate_codemem", "orccodemem")
    rep.saw(al)
    L = Locals(al)
    CODE, SIZE = L.param(0), L.param(1)
    CH = L.one("OrcCodeChunk *", "the chunk being handed out")
    stores = {}
    for n in al.walk():
        if n.k == "BinaryOperator" and n.op == "=" and (access_path(n.c[0]) or "").startswith(CODE + "->"):
            stores[access_path(n.c[0])[len(CODE) + 2:]] = n
    if "code" not in stores or "exec" not in stores:
        raise AnalysisBroken("orc_code_allocate_codemem no longer stores code->code / code->exec")
    sd = single_defs(al)

    def resolved(e):
        """text of e with single-definition locals replaced by their definitions."""
        e = strip_casts(e)
        for _ in range(3):
            if e is not None and e.k == "DeclRefExpr" and e.name in sd and strip_casts(sd[e.name]) is not None and strip_casts(sd[e.name]).k != "CallExpr":
                e = strip_casts(sd[e.name])
        return e

    def base_off(n):
        # ORC_PTR_OFFSET(ptr, off) expands to (void*)(((unsigned char*)(ptr)) + (off))
        for x in n.walk():
            if x.k == "BinaryOperator" and x.op == "+":
                return strip_casts(x.c[0]), strip_casts(x.c[1])
        return None, None
    b1, o1 = base_off(stores["code"].c[1])
    b2, o2 = base_off(stores["exec"].c[1])

    def field_of(e, field):
        """object text X if e is X->field / X.field (X with single-def locals resolved)."""
        e = strip_casts(e)
        if e is not None and e.k == "MemberExpr" and e.name == field:
            return unparse(resolved(e.c[0]))
        return None
    r1, r2 = field_of(b1, "write_ptr"), field_of(b2, "exec_ptr")
    x1, x2 = field_of(o1, "offset"), field_of(o2, "offset")
    ok = r1 is not None and r1 == r2 and x1 is not None and x1 == x2 == CH and r1 == "%s->region" % CH
    rep.check(ok, "D2-SAME-OFFSET", where(al), "code/exec",
              "code = R->write_ptr + X->offset, exec = R->exec_ptr + X->offset with the same chunk X and R = X->region",
              "the two views of the chunk use different bases/offsets: code = %s + %s, exec = %s + %s (regions %s / %s, chunks %s / %s)" %
              (unparse(b1), unparse(o1), unparse(b2), unparse(o2), r1, r2, x1, x2))
    rep.check(r1 == "%s->region" % CH, "D2-SAME-OFFSET", where(al), "region-of-chunk",
              "region is the chunk's own region", "pointers are taken from a region that is not the chunk's region (%s)" % r1)
    chunk_store = stores.get("chunk")
    rep.check(chunk_store is not None and unparse(resolved(chunk_store.c[1])) == CH, "D2-SAME-OFFSET", where(al), "code->chunk", "code keeps the chunk it was placed in",
              "code->chunk is not the chunk whose offset was used")
    used_set = [n for n in al.walk() if n.k == "BinaryOperator" and n.op == "=" and access_path(n.c[0]) == "%s->used" % CH and strip_casts(n.c[1]).v == 1]
    rep.check(bool(used_set), "D2-SAME-OFFSET", where(al), "chunk->used=TRUE", "chunk marked used before the lock is dropped", "allocated chunk is not marked used")
    fc = Facts(al)
    # the request that was made to the free-chunk search: its argument is the size a split must use
    req = [c for c in al.calls("orc_code_region_get_free_chunk")]
    if len(req) != 1:
        raise AnalysisBroken("orc_code_allocate_codemem: expected one orc_code_region_get_free_chunk call")
    REQ = unparse(strip_casts(req[0].args()[0]))
    for c in al.calls("orc_code_chunk_split"):
        conds = [(unparse(x[0]), x[1]) for x in fc.conds(c) if x[0] != "switch"]
        bigger = ("(%s->size > %s)" % (CH, REQ), True) in conds or ("(%s < %s->size)" % (REQ, CH), True) in conds or \
            ("(%s->size <= %s)" % (CH, REQ), False) in conds
        ok = bigger and unparse(strip_casts(c.args()[1])) == REQ and unparse(strip_casts(c.args()[0])) == CH
        rep.check(ok, "D2-SAME-OFFSET", where(al), "split-guard", "split only a strictly larger chunk, by the aligned size",
                  "split called as %s under %s" % (unparse(c), conds), line=c.line)
    # the free-chunk search hands out only unused chunks that are large enough
    gf = db.func("orc_code_region_get_free_chunk", "orccodemem")
    rep.saw(gf)
    fcg = Facts(gf)
    GS = gf.params[0]["name"]
    rets = [r for r in gf.walk() if r.k == "ReturnStmt" and r.c and r.c[0] is not None and strip_casts(r.c[0]).k == "DeclRefExpr" and "OrcCodeChunk" in (strip_casts(r.c[0]).get("ty") or "")]
    if not rets:
        raise AnalysisBroken("orc_code_region_get_free_chunk: no `return <chunk>`")
    for r in rets:
        X = strip_casts(r.c[0]).name
        conds = [(unparse(x[0]), x[1]) for x in fcg.conds(r) if x[0] != "switch"]
        unused = ("%s->used" % X, False) in conds or ("(%s->used == 0)" % X, True) in conds
        fits = ("(%s <= %s->size)" % (GS, X), True) in conds or ("(%s->size >= %s)" % (X, GS), True) in conds or ("(%s->size < %s)" % (X, GS), False) in conds
        rep.check(unused and fits, "D2-SAME-OFFSET", where(gf), "return-chunk", "only an unused chunk with size >= request is handed out",
                  "a chunk is returned without establishing !used and size <= chunk->size (facts %s)" % conds, line=r.line)

    # ---- D4: reuse -- the free-chunk search looks at every region and every chunk ---------------
    # (necessary for "freed memory is reused": a region or chunk the scan skips is never handed out again, and the
    #  allocator maps a fresh region instead)
    from loops import counted
    scans = [lp for lp in gf.walk() if lp.k == "ForStmt" and any(x.k == "ArraySubscriptExpr" and access_path(x.c[0]) == "orc_code_regions" for x in lp.c[3].walk())]
    if len(scans) != 1:
        raise AnalysisBroken("orc_code_region_get_free_chunk: region scan loop not found (%d candidates)" % len(scans))
    cl = counted(scans[0])
    full = cl is not None and ((cl["dir"] == "asc" and cl["first"] == (None, 0) and cl["last"] == ("orc_code_n_regions", -1)) or
                               (cl["dir"] == "desc" and cl["first"] == ("orc_code_n_regions", -1) and cl["last"] == (None, 0)))
    rep.check(full, "D4-SCAN-ALL", where(gf), "region-scan", "the search visits regions 0 .. orc_code_n_regions-1",
              "the free-chunk search no longer visits every region (%s): memory freed in a skipped region is never reused and a new region is mapped instead" % cl, line=scans[0].line)
    # chunk walk: from region->chunks along ->next to NULL, inside the region scan
    walks = [lp for lp in scans[0].c[3].walk() if lp.k == "ForStmt"]
    okw = False
    for lp in walks:
        init, cond, inc = lp.c[0], strip_casts(lp.c[1]), strip_casts(lp.c[2])
        it = [n for n in (init.walk() if init is not None else []) if n.k == "BinaryOperator" and n.op == "="]
        if not it or cond is None or inc is None:
            continue
        v = access_path(it[0].c[0])
        start = strip_casts(it[0].c[1])
        from flow import atom as _atom
        cn, cpol = _atom(cond, True)
        step = inc.k == "BinaryOperator" and inc.op == "=" and access_path(inc.c[0]) == v and access_path(inc.c[1]) == "%s->next" % v
        okw = okw or (start is not None and start.k == "MemberExpr" and start.name == "chunks" and cn is not None and access_path(cn) == v and cpol is True and step)
    rep.check(okw, "D4-SCAN-ALL", where(gf), "chunk-walk", "every chunk of a region is examined (from ->chunks along ->next to NULL)",
              "the chunk walk of the free-chunk search no longer runs from region->chunks along ->next to the end of the list", line=scans[0].line)

    # ---- D5: the chunk lists are only touched under the global mutex (shared with C08-D1) -----------
    # (a chunk marked free before the lock is taken can be handed to another thread and then merged away)
    import importlib
    importlib.import_module("rules.c08").d1(db, rep, "D5-LOCKED-STATE")

    d6_region_fresh(db, rep)
    region_entries_nonnull(db, rep, "D6b-REGION-NONNULL")
    d7_backing_fresh(db, rep)
    d8_owned_fields_released(db, rep)
    d9_region_fields_set(db, rep)
    d10_views_same_pages(db, rep)
    __import__("importlib").import_module("rules.c08").d12_no_touch_after_chunk_release(db, rep, "D10-NO-TOUCH-AFTER-RELEASE")

    # ---- D3 ------------------------------------------------------------------
    cp = db.func("orc_compiler_compile_program", "orccompiler")
    rep.saw(cp)
    acall = [c for c in cp.calls("orc_code_allocate_codemem")]
    mcpy = [c for c in cp.calls("memcpy") if "orccode->code" in unparse(c.args()[0])]
    if not acall or not mcpy:
        raise AnalysisBroken("compile driver: allocate_codemem / memcpy into orccode->code not found")
    size_arg = unparse(acall[0].args()[1])
    len_arg = unparse(mcpy[0].args()[2])
    rep.check(size_arg == len_arg, "D3-BOUNDED-COPY", where(cp), "memcpy-length", "memcpy length `%s` is the size that was allocated" % len_arg,
              "memcpy into the chunk copies `%s` bytes but `%s` were allocated" % (len_arg, size_arg), line=mcpy[0].line)
    inter = [n for n in cp.walk() if n.k in ("BinaryOperator", "CompoundAssignOperator") and n.op in ("=", "+=", "-=") and access_path(n.c[0]) == size_arg
             and cp.dominates(acall[0], n) and cp.dominates(n, mcpy[0])]
    rep.check(not inter, "D3-BOUNDED-COPY", where(cp), "size-unchanged", "no store to the size between allocation and copy", "code_size is modified between allocation and copy")
    # every other write into the chunk (memset / further memcpy at an offset) stays inside the aligned size: decided by
    # evaluating offset + length against (max(1,size) + a) & ~a for all sizes 1..4(a+1) and the alignment masks 15, 31, 63
    from exprval import evaluate as _ev, key_of as _key, NotPure as _NP
    for c in cp.calls():
        if c.name not in ("memset", "memcpy", "memmove") or c is mcpy[0]:
            continue
        d = strip_casts(c.args()[0])
        if "orccode->code" not in unparse(d) or "orccode->code_size" == unparse(d):
            continue
        off = None
        if d.k == "BinaryOperator" and d.op == "+":
            off = d.c[1] if "orccode->code" in unparse(d.c[0]) else d.c[0]
        ln = c.args()[2]
        bad = None
        try:
            for a_ in (15, 31, 63):
                for sz in range(1, 4 * (a_ + 1) + 1):
                    env = {size_arg: sz, "_orc_codemem_alignment": a_}
                    o = _ev(off, env) if off is not None else 0
                    l_ = _ev(ln, env)
                    aligned = (max(1, sz) + a_) & ~a_
                    if o < 0 or l_ < 0 or o + l_ > aligned:
                        bad = (sz, a_, o, l_, aligned)
                        break
                if bad:
                    break
        except _NP as e:
            raise AnalysisBroken("compile driver: cannot evaluate the extent of `%s`: %s" % (unparse(c)[:80], e))
        rep.check(bad is None, "D3-BOUNDED-COPY", where(cp), "%s-extent" % c.name,
                  "`%s` stays inside the chunk for every code size" % unparse(c)[:60],
                  "`%s` writes past the chunk: for code size %s and alignment mask %s it covers [%s, %s) but the chunk ends at %s -- the first bytes "
                  "of the next live function are overwritten" % ((unparse(c)[:70],) + (bad[0], bad[1], bad[2], bad[2] + bad[3], bad[4]) if bad else ("",) * 6), line=c.line)
    # rounding never shrinks: the size requested from the free-chunk search is (max(1,size) + a) & ~a
    rq = resolved(req[0].args()[0])
    txt = unparse(rq)
    t2 = txt.replace("(~", "~").replace(" ", "")
    ok = "&~_orc_codemem_alignment" in t2 and "+_orc_codemem_alignment" in t2 and SIZE in txt
    rep.check(ok, "D3-BOUNDED-COPY", where(al), "round-up", "aligned size = (max(1,size) + a) & ~a  >= size", "the size requested from the allocator is no longer a round-up of the requested size: `%s`" % txt)
    cs = stores.get("code_size")
    rep.check(cs is not None and unparse(strip_casts(cs.c[1])) == SIZE, "D3-BOUNDED-COPY", where(al), "code_size", "code_size records the requested size", "code->code_size is not the requested size")


HEAP_ALLOCATORS = ("orc_malloc", "malloc", "calloc")


def fresh_result(db, g, memo, depth=0):
    """None if every non-NULL value g can return is an object nobody else holds: a heap block allocated in g (or by a callee
    with the same property), or a value moved out of a variable that outlives the call (the variable is overwritten on every
    path from the load to the exit).  Otherwise a description of the offending return."""
    from flow import paths_avoiding
    if g.name in memo:
        return memo[g.name]
    memo[g.name] = None                       # recursion guard
    res = None
    rets = [r for r in g.walk() if r.k == "ReturnStmt" and r.c and r.c[0] is not None]
    locs = {x.name for x in g.walk() if x.k == "VarDecl" and not x.get("static")}
    for r in rets:
        e = strip_casts(r.c[0])
        if e is None or e.v == 0:
            continue
        srcs = [e]
        if e.k == "DeclRefExpr" and e.name in locs:
            srcs = []
            for x in g.walk():
                if x.k == "VarDecl" and x.name == e.name and x.c and x.c[0] is not None:
                    srcs.append(x.c[0])
                elif x.k == "BinaryOperator" and x.op == "=" and access_path(x.c[0]) == e.name:
                    srcs.append(x.c[1])
        for s0 in srcs:
            s = strip_casts(s0)
            if s is None or s.v == 0:
                continue
            if s.k == "CallExpr" and s.name in HEAP_ALLOCATORS:
                continue
            if s.k == "CallExpr" and s.name and depth < 4:
                try:
                    h = db.func(s.name)
                except AnalysisBroken:
                    h = None
                if h is not None and h.body is not None:
                    why = fresh_result(db, h, memo, depth + 1)
                    if why is None:
                        continue
                    res = "%s returns the result of %s, and %s" % (g.name, s.name, why)
                    break
            p = access_path(s)
            if p and (s.k != "DeclRefExpr" or s.name not in locs) and e.k == "DeclRefExpr":
                # moved out of longer-lived storage: that storage must be overwritten before the function returns,
                # or the local re-assigned, on every path from the load
                def rel(el, p=p, nm=e.name, s0=s0):
                    return el.k == "BinaryOperator" and el.op == "=" and (access_path(el.c[0]) == p or (access_path(el.c[0]) == nm and el.c[1] is not s0 and strip_casts(el.c[1]) is not s))
                st = s0
                while st.parent is not None and not (st.k in ("BinaryOperator", "VarDecl", "DeclStmt") and (st.k != "BinaryOperator" or st.op == "=")):
                    st = st.parent
                w = paths_avoiding(g, st, rel)
                if w is None:
                    continue
                res = "%s (line %s) returns the pointer it read from `%s` while `%s` keeps it: the next call returns the same object again" % (g.name, r.line, p, p)
                break
            res = "%s (line %s) returns `%s`, which is not a freshly allocated object" % (g.name, r.line, unparse(s)[:50])
            break
        if res:
            break
    memo[g.name] = res
    return res


def d6_region_fresh(db, rep):
    """D6: every region entered into the region table is an object of its own.  Two table entries (or two chunk lists) that are
    the same OrcCodeRegion make live functions overlap while each list stays well formed."""
    tu = db.tu("orccodemem")
    n = 0
    memo = {}
    for f in tu.main_functions():
        for x in f.walk():
            if x.k == "BinaryOperator" and x.op == "=" and strip_casts(x.c[0]) is not None and strip_casts(x.c[0]).k == "ArraySubscriptExpr" \
                    and access_path(strip_casts(x.c[0]).c[0]) == "orc_code_regions":
                r = strip_casts(x.c[1])
                if r is None or r.k != "DeclRefExpr":
                    raise AnalysisBroken("orc_code_regions[...] = %s: not a local" % unparse(x.c[1]))
                from flow import reaching_defs
                defs = [(d.c[1] if d.k == "BinaryOperator" else d.c[0]) for d in reaching_defs(f, r.name, x)]
                for d in defs:
                    n += 1
                    d = strip_casts(d)
                    why = None
                    if d.k == "CallExpr" and d.name in HEAP_ALLOCATORS:
                        pass
                    elif d.k == "CallExpr" and d.name:
                        why = fresh_result(db, db.func(d.name), memo)
                    else:
                        why = "it is `%s`" % unparse(d)[:50]
                    rep.saw(f)
                    rep.check(why is None, "D6-REGION-FRESH", where(f), "orc_code_regions[]<-%s" % unparse(d)[:40],
                              "the region appended to the table comes from %s, every non-NULL result of which is a newly allocated object" % unparse(d)[:40],
                              "the region appended to orc_code_regions[] need not be a new object: %s. Live functions placed in the 'new' region then overlap those of an existing one" % why,
                              line=x.line)
    if n < 1:
        raise AnalysisBroken("no store into orc_code_regions[] found")


def region_entries_nonnull(db, rep, rule):
    """Every reader of the region table dereferences its entries unconditionally (the free-chunk search walks
    orc_code_regions[i]->chunks), so a pointer stored into the table must be known non-NULL at the store: a must-fact from a
    dominating test of that very variable.  orc_code_region_new() returns NULL whenever no executable mapping can be had."""
    from flow import atom
    tu = db.tu("orccodemem")
    n = 0
    readers = 0
    for f in tu.main_functions():
        for x in f.walk():
            if x.k == "MemberExpr" and x.get("arrow") and strip_casts(x.c[0]) is not None:
                b = strip_casts(x.c[0])
                if b.k == "ArraySubscriptExpr" and access_path(b.c[0]) == "orc_code_regions":
                    readers += 1
                elif b.k == "DeclRefExpr" and b.get("dk") == "local":
                    from flow import reaching_defs
                    for d in reaching_defs(f, b.name, x):
                        r = strip_casts(d.c[1] if d.k == "BinaryOperator" else d.c[0])
                        if r is not None and r.k == "ArraySubscriptExpr" and access_path(r.c[0]) == "orc_code_regions":
                            readers += 1
    if readers < 1:
        raise AnalysisBroken("no reader dereferencing orc_code_regions[] entries found")
    for f in tu.main_functions():
        fc = None
        for x in f.walk():
            if x.k == "BinaryOperator" and x.op == "=" and strip_casts(x.c[0]) is not None and strip_casts(x.c[0]).k == "ArraySubscriptExpr" \
                    and access_path(strip_casts(x.c[0]).c[0]) == "orc_code_regions":
                r = strip_casts(x.c[1])
                if r is None or r.k != "DeclRefExpr":
                    raise AnalysisBroken("orc_code_regions[...] = %s: not a local" % unparse(x.c[1]))
                fc = fc or Facts(f)
                ok = any(c[0] != "switch" and c[1] is True and access_path(strip_casts(c[0])) == r.name for c in fc.conds(x))
                n += 1
                rep.saw(f)
                rep.check(ok, rule, where(f), "orc_code_regions[]<-%s nonnull" % r.name,
                          "`%s` is known non-NULL where it is entered into the table (%d dereferencing readers)" % (r.name, readers),
                          "%s enters `%s` into orc_code_regions[] (and counts it) without knowing that it is not NULL: orc_code_region_new() fails when no "
                          "executable mapping can be obtained, and every later search of the table dereferences the entry - the next compile crashes instead of "
                          "falling back to emulation" % (f.name, r.name), line=x.line)
    if n < 1:
        raise AnalysisBroken("no store into orc_code_regions[] found")


def d7_backing_fresh(db, rep):
    """D7: every code region is backed by storage of its own.  The descriptor handed to mmap() for a region must come from a
    call that creates a NEW object each time (mkstemp and friends, memfd_create, open with O_CREAT|O_EXCL); a plain
    open(O_CREAT) of a computed name reopens the file a previous region already maps, and two regions with disjoint address
    ranges then share their bytes: compiling into one rewrites live functions of the other."""
    from flow import reaching_defs
    FRESH = {"mkstemp", "mkostemp", "mkstemps", "memfd_create", "tmpfile"}
    tu = db.tu("orccodemem")
    n = 0
    for f in tu.main_functions():
        for c in f.calls("mmap"):
            a = c.args()
            if len(a) < 5:
                continue
            fd = strip_casts(a[4])
            if fd is None or fd.v == -1 or fd.k != "DeclRefExpr":
                continue
            defs = reaching_defs(f, fd.name, c)
            bad = []
            for d in defs:
                r = strip_casts(d.c[1] if d.k == "BinaryOperator" else d.c[0])
                if r is None:
                    continue
                if r.k == "CallExpr" and r.name in FRESH:
                    continue
                if r.k == "CallExpr" and r.name in ("open", "open64", "openat"):
                    fl = r.args()[1] if r.name != "openat" else r.args()[2]
                    v = strip_casts(fl).v
                    if v is not None and (v & 0o200):          # O_EXCL on Linux
                        continue
                    bad.append("open() without O_EXCL (line %s)" % r.line)
                    continue
                if r.v == -1:
                    continue
                bad.append("`%s` (line %s)" % (unparse(r)[:40], r.line))
            n += 1
            rep.saw(f)
            rep.check(not bad, "D7-BACKING-FRESH", where(f), "mmap(fd=%s)@%s" % (fd.name, c.line),
                      "the mapped descriptor comes from a call that creates a new object each time",
                      "%s maps a descriptor obtained by %s: a second region created by the same process can get the same file, so two regions share "
                      "their storage and code written into one overwrites live functions of the other" % (f.name, "; ".join(bad)), line=c.line)
    if n < 2:
        raise AnalysisBroken("only %d file-backed mmap calls found in orccodemem.c" % n)


def d8_owned_fields_released(db, rep, rule="D8-CHUNK-RELEASED", destructor="orc_code_free", tub="orccode",
                             owned=(("chunk", ("orc_code_chunk_free",)), ("insns", ("free",)), ("vars", ("free",)))):
    """D8: "memory released by frees is ... reused".  Freeing a code object must give back what it owns on EVERY path on which
    it owns it: the only condition a release may depend on is the owned pointer itself being non-NULL.  A further condition
    (e.g. "not when the entry point is the emulator") leaves the chunk marked used for ever: every compile/free cycle of such a
    program costs one chunk and the regions grow without bound.  Decided as a path rule: from the entry of the destructor to
    the release of the object itself, every path on which the field is not known NULL passes its release."""
    from flow import atom, path_to
    f = db.func(destructor, tub)
    rep.saw(f)
    obj = f.params[0]["name"]
    final = [c for c in f.calls("free") if c.args() and access_path(strip_casts(c.args()[0])) == obj]
    if not final:
        raise AnalysisBroken("%s: release of the object itself not found" % destructor)

    def null_edge(b, idx, path):
        blk = f.blocks[b]
        ek = f.edge_kind(b, idx)
        if blk.cond is None or ek not in (True, False):
            return False
        n, pol = atom(blk.cond, ek)
        return n is not None and access_path(n) == path and pol is False
    n = 0
    for fld, rel in owned:
        path = "%s->%s" % (obj, fld)
        if not any(x.k == "MemberExpr" and x.name == fld for x in f.walk()):
            raise AnalysisBroken("%s does not mention `%s`" % (destructor, path))
        n += 1
        wit = None
        for fin in final:                   # EVERY release of the object itself (an early `free (code); return;` is one)
            wit = wit or path_to(f, fin, lambda e: e.k == "CallExpr" and e.name in rel and e.args() and access_path(strip_casts(e.args()[0])) == path,
                                 lambda b, idx: not null_edge(b, idx, path))
        rep.check(wit is None, rule, where(f), "%s:%s" % (destructor, fld),
                  "`%s` is released on every path on which it is not NULL" % path,
                  "%s can release the object without releasing `%s` although it is set (the release depends on more than the pointer being non-NULL): "
                  "what it owns - a chunk of code memory - stays allocated for ever, and a bounded working set of compiles and frees makes the number of "
                  "regions grow" % (destructor, path), line=final[-1].line)
    return n


def d9_region_fields_set(db, rep, rule="D9-REGION-FIELDS-SET"):
    """D9: every way of obtaining code memory (the dual mapping of a temporary file, the anonymous RWX mapping, VirtualAlloc ...)
    fills the same region descriptor; orc_code_region_new then makes one free chunk of region->size bytes out of it.  On
    every path to a success return of an orc_code_region_allocate_codemem_* method the three fields the rest of the allocator
    reads - size, exec_ptr, write_ptr - must have been assigned (sibling agreement).  A method that forgets `size` hands back a
    region whose only chunk has 0 bytes: nothing ever fits, every compile maps another region and falls back to emulation."""
    from flow import path_to
    tu = db.tu("orccodemem")
    n = 0
    for f in tu.main_functions():
        if not f.name.startswith("orc_code_region_allocate_codemem_"):
            continue
        reg = [p_["name"] for p_ in f.params if "OrcCodeRegion" in (p_.get("ty") or "")]
        if not reg:
            continue
        rets = [r for r in f.walk() if r.k == "ReturnStmt" and r.c and r.c[0] is not None and strip_casts(r.c[0]).v not in (0, None)]
        rets += [r for r in f.walk() if r.k == "ReturnStmt" and r.c and r.c[0] is not None and strip_casts(r.c[0]).v is None and strip_casts(r.c[0]).k == "DeclRefExpr"]
        if not rets:
            continue
        n += 1
        rep.saw(f)
        missing = []
        for fld in ("size", "exec_ptr", "write_ptr"):
            path = "%s->%s" % (reg[0], fld)
            for r in rets:
                if strip_casts(r.c[0]).v is None:
                    continue                # `return ret;`: judged through the constant success returns of the siblings
                wit = path_to(f, r, lambda e, path=path: e.k == "BinaryOperator" and e.op == "=" and (access_path(e.c[0]) == path or any(
                    y.k == "BinaryOperator" and y.op == "=" and access_path(y.c[0]) == path for y in e.walk())))
                if wit is not None and fld not in missing:
                    missing.append(fld)
        rep.check(not missing, rule, where(f), f.name,
                  "size, exec_ptr and write_ptr are assigned on every path to a success return",
                  "%s can return success without having set region->%s: orc_code_region_new builds the region's free chunk from these fields - with size 0 "
                  "nothing ever fits, each compile maps and registers one more region and silently runs emulated" % (f.name, ", region->".join(missing)), line=f.line)
    if n < 2:
        raise AnalysisBroken("only %d code-memory methods found in orccodemem.c" % n)
    return n


def d10_views_same_pages(db, rep, rule="D10-VIEWS-SAME-PAGES"):
    """D10: the allocator copies machine code through region->write_ptr and hands out region->exec_ptr + the same offset as the
    entry point (D2).  That is the emitted code only if the two pointers are views of the SAME pages.  In every
    orc_code_region_allocate_codemem_* method the two fields must therefore be (a) the same pointer (one assigned from the
    other, or both from one value), or (b) two mmap() results of the same file descriptor and offset, both MAP_SHARED and
    neither anonymous.  Two private or anonymous mappings are unrelated memory: the bytes written through one never appear
    in the other, the entry point is a block of zeroes."""
    tu = db.tu("orccodemem")
    MAP_SHARED, MAP_ANON = 0x01, 0x20
    n = 0
    for f in tu.main_functions():
        if not f.name.startswith("orc_code_region_allocate_codemem_"):
            continue
        reg = [p_["name"] for p_ in f.params if "OrcCodeRegion" in (p_.get("ty") or "")]
        if not reg:
            continue
        sd = single_defs(f)

        def resolve(e):
            e = strip_casts(e)
            k = 0
            while e is not None and e.k == "DeclRefExpr" and e.name in sd and k < 4:
                e = strip_casts(sd[e.name])
                k += 1
            return e
        src = {}
        for fld in ("exec_ptr", "write_ptr"):
            path = "%s->%s" % (reg[0], fld)
            src[fld] = [resolve(e.c[1]) for e in f.walk() if e.k == "BinaryOperator" and e.op == "=" and access_path(e.c[0]) == path]
        if not src["exec_ptr"] and not src["write_ptr"]:
            continue                    # a dispatcher: judged through the methods it calls
        n += 1
        rep.saw(f)
        why = None
        if len(src["exec_ptr"]) != 1 or len(src["write_ptr"]) != 1:
            why = "assigns region->exec_ptr %d times and region->write_ptr %d times" % (len(src["exec_ptr"]), len(src["write_ptr"]))
        else:
            x, w = src["exec_ptr"][0], src["write_ptr"][0]
            px, pw = access_path(x), access_path(w)
            same_ptr = (pw is not None and pw == "%s->exec_ptr" % reg[0]) or (px is not None and px == "%s->write_ptr" % reg[0]) or \
                       (x is not None and w is not None and x.id == w.id)
            if not same_ptr:
                if x is not None and w is not None and x.k == "CallExpr" and w.k == "CallExpr" and x.name == "mmap" and w.name == "mmap" and \
                        len(x.args()) == 6 and len(w.args()) == 6:
                    fx, fw = strip_casts(x.args()[3]).v, strip_casts(w.args()[3]).v
                    dx, dw = access_path(strip_casts(x.args()[4])), access_path(strip_casts(w.args()[4]))
                    ox, ow = strip_casts(x.args()[5]).v, strip_casts(w.args()[5]).v
                    if fx is None or fw is None or not (fx & MAP_SHARED) or not (fw & MAP_SHARED) or (fx & MAP_ANON) or (fw & MAP_ANON):
                        why = "maps the two views with flags %s and %s: both must be MAP_SHARED mappings of a file (a private or anonymous mapping is memory of its own)" % (
                            "?" if fx is None else hex(fx), "?" if fw is None else hex(fw))
                    elif dx is None or dx != dw:
                        why = "maps the two views from different descriptors (%s, %s)" % (unparse(x.args()[4]), unparse(w.args()[4]))
                    elif ox is None or ox != ow:
                        why = "maps the two views at different file offsets"
                    else:
                        fdw = [e for e in f.walk() if e.k == "BinaryOperator" and e.op == "=" and access_path(e.c[0]) == dx and
                               f.dominates(x, e) and f.dominates(e, w)]
                        if fdw:
                            why = "reassigns %s between the two mmap() calls (line %s)" % (dx, fdw[0].line)
                else:
                    why = "takes region->exec_ptr from `%s` and region->write_ptr from `%s`, which are neither one pointer nor two shared mappings of one file" % (
                        unparse(x)[:50] if x is not None else "?", unparse(w)[:50] if w is not None else "?")
        rep.check(why is None, rule, where(f), f.name,
                  "write_ptr and exec_ptr are the same pointer, or MAP_SHARED mappings of the same descriptor and offset",
                  "%s %s: code is copied through write_ptr and executed through exec_ptr + the same offset, so the entry point would not hold the "
                  "emitted bytes" % (f.name, why), line=f.line)
    if n < 2:
        raise AnalysisBroken("only %d code-memory methods assigning the two views found" % n)
    return n
