/* positive controls for the snprintf-length rule (C05 D1c): the return value of (v)snprintf may exceed the buffer */
#include <stdio.h>
#include <string.h>
void fmt_bad (char *dst, const char *name) { char tmp[32]; int n; n = snprintf (tmp, sizeof (tmp), "%s", name); memcpy (dst, tmp, n + 1); }
void fmt_good (char *dst, const char *name) { char tmp[32]; int n; n = snprintf (tmp, sizeof (tmp), "%s", name); if (n >= 32) n = 31; if (n < 32) memcpy (dst, tmp, n + 1); }
void fmt_strlen (char *dst, const char *name) { char tmp[32]; int n; snprintf (tmp, sizeof (tmp), "%s", name); n = strlen (tmp); memcpy (dst, tmp, n + 1); }
