struct T { int register_size; };
struct C { int max_var_size; int loop_shift; };
static struct T t1 = { 8 }, t2 = { 16 }, t3 = { 32 };
void setm(struct C *c, int f) { int m = 1; int mult = 1; if (f&1) mult = 2; else if (f&2) mult = 4; m = (m > mult*f ? m : mult*8); c->max_var_size = m; }
void bad(struct T *t, struct C *c) {
  int i; int n = 2;
  for (i = 1; i; i++) { if ((t->register_size / c->max_var_size) == n) break; n *= 2; }
  c->loop_shift = i;
}
void good(struct T *t, struct C *c) {
  int n = t->register_size / c->max_var_size; int shift = 0;
  while (n > 1) { n >>= 1; shift++; }
  c->loop_shift = shift;
}
void spin(int *p) { int k = *p; while (k > 0) { } }
/* rotation search without / with a step counter */
unsigned rot_bad(unsigned x) { int s = 0; while (x > 0xff) { x = (x << 2) | (x >> 30); s++; } return s; }
unsigned rot_good(unsigned x) { int s = 0; while (x > 0xff && s < 16) { x = (x << 2) | (x >> 30); s++; } return s; }
/* power-of-two search whose shift count is the induction variable: without / with a bound on the count */
int log2_bad(int size) { int shift = 0; while ((1 << shift) < size) shift++; return shift; }
int log2_good(int size) { int shift = 0; while (shift < 30 && (1 << shift) < size) shift++; return shift; }
