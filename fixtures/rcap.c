/* positive controls for R-CAP: one unbounded append, one conforming twin */
struct Tab { int items[8]; int n_items; int other; };
void append_bad(struct Tab *t, int v) { t->items[t->n_items] = v; t->n_items++; }
void append_good(struct Tab *t, int v) { if (t->n_items >= 8) return; t->items[t->n_items] = v; t->n_items++; }
int *slot_bad(struct Tab *t) { int *p; p = t->items + t->n_items; t->n_items++; return p; }
int *slot_good(struct Tab *t) { int *p; if (t->n_items >= 8) return 0; p = t->items + t->n_items; t->n_items++; return p; }
int find_or_add_bad(struct Tab *t, int v) { int i; for (i = 0; i < t->n_items; i++) if (t->items[i] == v) break; if (i == t->n_items) { t->n_items++; t->items[i] = v; } return i; }
int find_or_add_good(struct Tab *t, int v) { int i; for (i = 0; i < t->n_items; i++) if (t->items[i] == v) break; if (i == t->n_items) { if (t->n_items >= 8) return -1; t->n_items++; t->items[i] = v; } return i; }
