/* positive control for C17 D7: advancing the emission pointer without writing the bytes it steps over */
struct C { unsigned char *code; unsigned char *codeptr; };
void skip_bad (struct C *c, int pad) { c->codeptr += pad; }
void skip_good (struct C *c, int pad) { while (pad-- > 0) *c->codeptr++ = 0; }
void skip_filled (struct C *c, int pad) { __builtin_memset (c->codeptr, 0, pad); c->codeptr += pad; }
