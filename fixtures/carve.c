/* positive controls for the block-offset rule (C05 D1d): slots carved out of one malloc'd block */
#include <stdlib.h>
#define SLOT 128
#define FIRST 24
#define NSLOTS 96
void carve_bad (void **slots) { unsigned char *blk; int i; blk = malloc (64 * SLOT); for (i = FIRST; i < NSLOTS; i++) slots[i] = blk + (i - FIRST) * SLOT; }
void carve_good (void **slots) { unsigned char *blk; int i; blk = malloc ((NSLOTS - FIRST) * SLOT); for (i = FIRST; i < NSLOTS; i++) slots[i] = blk + (i - FIRST) * SLOT; }
